//! Verification shim for the `crc` crate (only inside the scratch copy the checks build).
//!
//! Assumed contract of the dependency: `checksum(bytes)` / `digest().update(..)*.finalize()` is a
//! deterministic function of the concatenated byte sequence.  The real table-driven CRC makes CBMC
//! spend minutes per dozen symbolic bytes (16 KiB lookup tables with symbolic indices); no contract
//! in /verif depends on the CRC polynomial, only on "stored value == f(covered bytes)".
#![no_std]
use core::marker::PhantomData;

pub struct Algorithm<W> {
    pub init: W,
}
pub const CRC_32_ISO_HDLC: Algorithm<u32> = Algorithm { init: 0x2144_DF1C };
pub const CRC_64_XZ: Algorithm<u64> = Algorithm { init: 0x995D_C9BB_DF19_39FA };

pub struct Table<const L: usize>;

pub struct Crc<W, I> {
    init: W,
    _i: PhantomData<I>,
}

#[derive(Clone)]
pub struct Digest<'a, W, I> {
    _crc: &'a Crc<W, I>,
    value: W,
}

/// Long inputs are folded over a fixed sample of positions plus the length (still a deterministic function of the byte
/// sequence - the only assumption any contract uses - but loop-free, so harnesses can push KiB-sized writes through).
const SAMPLE_ABOVE: usize = 16;
const fn sample_pos(len: usize, k: usize) -> usize {
    match k {
        0 => 0,
        1 => 1,
        2 => len / 4,
        3 => len / 2,
        4 => len / 2 + 1,
        5 => (len / 4) * 3,
        6 => len - 2,
        _ => len - 1,
    }
}
const fn fold32(mut s: u32, bytes: &[u8]) -> u32 {
    if bytes.len() <= SAMPLE_ABOVE {
        let mut i = 0;
        while i < bytes.len() {
            s = step32(s, bytes[i]);
            i += 1;
        }
    } else {
        s = step32(s, bytes.len() as u8);
        s = step32(s, (bytes.len() >> 8) as u8);
        s = step32(s, (bytes.len() >> 16) as u8);
        let mut k = 0;
        while k < 8 {
            s = step32(s, bytes[sample_pos(bytes.len(), k)]);
            k += 1;
        }
    }
    s
}
const fn fold64(mut s: u64, bytes: &[u8]) -> u64 {
    if bytes.len() <= SAMPLE_ABOVE {
        let mut i = 0;
        while i < bytes.len() {
            s = step64(s, bytes[i]);
            i += 1;
        }
    } else {
        s = step64(s, bytes.len() as u8);
        s = step64(s, (bytes.len() >> 8) as u8);
        s = step64(s, (bytes.len() >> 16) as u8);
        let mut k = 0;
        while k < 8 {
            s = step64(s, bytes[sample_pos(bytes.len(), k)]);
            k += 1;
        }
    }
    s
}
const fn step32(s: u32, b: u8) -> u32 {
    (s.rotate_left(7) ^ (b as u32)).wrapping_add(0x9E37_79B9)
}
const fn step64(s: u64, b: u8) -> u64 {
    (s.rotate_left(11) ^ (b as u64)).wrapping_add(0x9E37_79B9_7F4A_7C15)
}

impl Crc<u32, Table<16>> {
    pub const fn new(a: &'static Algorithm<u32>) -> Self {
        Self { init: a.init, _i: PhantomData }
    }
    pub const fn checksum(&self, bytes: &[u8]) -> u32 {
        fold32(self.init, bytes)
    }
    pub const fn digest(&self) -> Digest<'_, u32, Table<16>> {
        Digest { _crc: self, value: self.init }
    }
}
impl<'a> Digest<'a, u32, Table<16>> {
    pub fn update(&mut self, bytes: &[u8]) {
        self.value = fold32(self.value, bytes);
    }
    pub const fn finalize(self) -> u32 {
        self.value
    }
}

impl Crc<u64, Table<16>> {
    pub const fn new(a: &'static Algorithm<u64>) -> Self {
        Self { init: a.init, _i: PhantomData }
    }
    pub const fn checksum(&self, bytes: &[u8]) -> u64 {
        fold64(self.init, bytes)
    }
    pub const fn digest(&self) -> Digest<'_, u64, Table<16>> {
        Digest { _crc: self, value: self.init }
    }
}
impl<'a> Digest<'a, u64, Table<16>> {
    pub fn update(&mut self, bytes: &[u8]) {
        self.value = fold64(self.value, bytes);
    }
    pub const fn finalize(self) -> u64 {
        self.value
    }
}
