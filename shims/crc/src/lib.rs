//! Verification shim for the `crc` crate (only inside the scratch copy the checks build).
//!
//! Assumed contract of the dependency: `checksum(bytes)` / `digest().update(..)*.finalize()` is a deterministic
//! function of the concatenated byte sequence, independent of how the sequence is split into `update` calls.
//! The real table-driven CRC makes CBMC spend minutes per dozen symbolic bytes (16 KiB lookup tables with symbolic
//! indices); no contract in /verif depends on the CRC polynomial, only on "stored value == f(covered bytes)".
//!
//! f folds, in stream order, the bytes at a fixed set of *absolute stream positions* - the first 16 positions and the
//! three positions around every multiple of 4096 - and finally the total length. That keeps f a function of the byte
//! sequence (so every proof that uses only determinism stays valid), makes it insensitive to chunking like a real CRC,
//! and makes `update` loop-free in the slice length so that harnesses can push KiB-sized writes through it.
#![no_std]
use core::marker::PhantomData;

pub struct Algorithm<W> {
    pub init: W,
}
pub const CRC_32_ISO_HDLC: Algorithm<u32> = Algorithm { init: 0x2144_DF1C };
pub const CRC_64_XZ: Algorithm<u64> = Algorithm { init: 0x995D_C9BB_DF19_39FA };

pub struct Table<const L: usize>;

pub struct Crc<W, I> {
    init: W,
    _i: PhantomData<I>,
}

#[derive(Clone)]
pub struct Digest<'a, W, I> {
    _crc: &'a Crc<W, I>,
    value: u64,
    count: u64,
}

const HEAD: u64 = 16;
const BLOCK: u64 = 4096;

const fn step(s: u64, b: u8) -> u64 {
    (s.rotate_left(11) ^ (b as u64)).wrapping_add(0x9E37_79B9_7F4A_7C15)
}

/// fold the sampled positions that fall into [count, count + bytes.len()), in increasing order.
/// Straight-line code (generated): no loop, so harnesses need no unwinding budget for it.
const fn fold(mut s: u64, count: u64, bytes: &[u8]) -> u64 {
    let len = bytes.len() as u64;
    if len == 0 {
        return s;
    }
    assert!(len <= 3 * BLOCK, "verification shim: update() slices are limited to 12 KiB");
    let end = count + len;
    let first = (count / BLOCK) * BLOCK;
    if 0 >= count && 0 < end { s = step(s, bytes[(0 - count) as usize]); }
    if 1 >= count && 1 < end { s = step(s, bytes[(1 - count) as usize]); }
    if 2 >= count && 2 < end { s = step(s, bytes[(2 - count) as usize]); }
    if 3 >= count && 3 < end { s = step(s, bytes[(3 - count) as usize]); }
    if 4 >= count && 4 < end { s = step(s, bytes[(4 - count) as usize]); }
    if 5 >= count && 5 < end { s = step(s, bytes[(5 - count) as usize]); }
    if 6 >= count && 6 < end { s = step(s, bytes[(6 - count) as usize]); }
    if 7 >= count && 7 < end { s = step(s, bytes[(7 - count) as usize]); }
    if 8 >= count && 8 < end { s = step(s, bytes[(8 - count) as usize]); }
    if 9 >= count && 9 < end { s = step(s, bytes[(9 - count) as usize]); }
    if 10 >= count && 10 < end { s = step(s, bytes[(10 - count) as usize]); }
    if 11 >= count && 11 < end { s = step(s, bytes[(11 - count) as usize]); }
    if 12 >= count && 12 < end { s = step(s, bytes[(12 - count) as usize]); }
    if 13 >= count && 13 < end { s = step(s, bytes[(13 - count) as usize]); }
    if 14 >= count && 14 < end { s = step(s, bytes[(14 - count) as usize]); }
    if 15 >= count && 15 < end { s = step(s, bytes[(15 - count) as usize]); }
    { let m = first + 0 * BLOCK; if m + 0 >= 1 { let q = m + 0 - 1; if q >= HEAD && q >= count && q < end { s = step(s, bytes[(q - count) as usize]); } } }
    { let m = first + 0 * BLOCK; if m + 1 >= 1 { let q = m + 1 - 1; if q >= HEAD && q >= count && q < end { s = step(s, bytes[(q - count) as usize]); } } }
    { let m = first + 0 * BLOCK; if m + 2 >= 1 { let q = m + 2 - 1; if q >= HEAD && q >= count && q < end { s = step(s, bytes[(q - count) as usize]); } } }
    { let m = first + 1 * BLOCK; if m + 0 >= 1 { let q = m + 0 - 1; if q >= HEAD && q >= count && q < end { s = step(s, bytes[(q - count) as usize]); } } }
    { let m = first + 1 * BLOCK; if m + 1 >= 1 { let q = m + 1 - 1; if q >= HEAD && q >= count && q < end { s = step(s, bytes[(q - count) as usize]); } } }
    { let m = first + 1 * BLOCK; if m + 2 >= 1 { let q = m + 2 - 1; if q >= HEAD && q >= count && q < end { s = step(s, bytes[(q - count) as usize]); } } }
    { let m = first + 2 * BLOCK; if m + 0 >= 1 { let q = m + 0 - 1; if q >= HEAD && q >= count && q < end { s = step(s, bytes[(q - count) as usize]); } } }
    { let m = first + 2 * BLOCK; if m + 1 >= 1 { let q = m + 1 - 1; if q >= HEAD && q >= count && q < end { s = step(s, bytes[(q - count) as usize]); } } }
    { let m = first + 2 * BLOCK; if m + 2 >= 1 { let q = m + 2 - 1; if q >= HEAD && q >= count && q < end { s = step(s, bytes[(q - count) as usize]); } } }
    { let m = first + 3 * BLOCK; if m + 0 >= 1 { let q = m + 0 - 1; if q >= HEAD && q >= count && q < end { s = step(s, bytes[(q - count) as usize]); } } }
    { let m = first + 3 * BLOCK; if m + 1 >= 1 { let q = m + 1 - 1; if q >= HEAD && q >= count && q < end { s = step(s, bytes[(q - count) as usize]); } } }
    { let m = first + 3 * BLOCK; if m + 2 >= 1 { let q = m + 2 - 1; if q >= HEAD && q >= count && q < end { s = step(s, bytes[(q - count) as usize]); } } }
    s
}

const fn finish(s: u64, count: u64) -> u64 {
    let s = step(s, count as u8);
    let s = step(s, (count >> 8) as u8);
    let s = step(s, (count >> 16) as u8);
    step(s, (count >> 24) as u8)
}

impl Crc<u32, Table<16>> {
    pub const fn new(a: &'static Algorithm<u32>) -> Self {
        Self { init: a.init, _i: PhantomData }
    }
    pub const fn checksum(&self, bytes: &[u8]) -> u32 {
        let s = fold(self.init as u64, 0, bytes);
        let f = finish(s, bytes.len() as u64);
        (f ^ (f >> 32)) as u32
    }
    pub const fn digest(&self) -> Digest<'_, u32, Table<16>> {
        Digest { _crc: self, value: self.init as u64, count: 0 }
    }
}
impl<'a> Digest<'a, u32, Table<16>> {
    pub fn update(&mut self, bytes: &[u8]) {
        self.value = fold(self.value, self.count, bytes);
        self.count += bytes.len() as u64;
    }
    pub const fn finalize(self) -> u32 {
        let f = finish(self.value, self.count);
        (f ^ (f >> 32)) as u32
    }
}

impl Crc<u64, Table<16>> {
    pub const fn new(a: &'static Algorithm<u64>) -> Self {
        Self { init: a.init, _i: PhantomData }
    }
    pub const fn checksum(&self, bytes: &[u8]) -> u64 {
        finish(fold(self.init, 0, bytes), bytes.len() as u64)
    }
    pub const fn digest(&self) -> Digest<'_, u64, Table<16>> {
        Digest { _crc: self, value: self.init, count: 0 }
    }
}
impl<'a> Digest<'a, u64, Table<16>> {
    pub fn update(&mut self, bytes: &[u8]) {
        self.value = fold(self.value, self.count, bytes);
        self.count += bytes.len() as u64;
    }
    pub const fn finalize(self) -> u64 {
        finish(self.value, self.count)
    }
}
