use crc::*;
const C: Crc<u32, Table<16>> = Crc::<u32, Table<16>>::new(&CRC_32_ISO_HDLC);
const D: Crc<u64, Table<16>> = Crc::<u64, Table<16>>::new(&CRC_64_XZ);
#[test]
fn chunking_does_not_matter() {
    let data: Vec<u8> = (0..13000u32).map(|i| (i.wrapping_mul(2654435761) >> 13) as u8).collect();
    for total in [0usize, 1, 7, 31, 32, 33, 100, 4095, 4096, 4097, 8191, 8193, 12288] {
        let whole = C.checksum(&data[..total]);
        let whole64 = D.checksum(&data[..total]);
        for step in [1usize, 3, 17, 100, 4096, 5000] {
            let mut dg = C.digest();
            let mut dg64 = D.digest();
            let mut off = 0;
            while off < total {
                let n = step.min(total - off);
                dg.update(&data[off..off + n]);
                dg64.update(&data[off..off + n]);
                off += n;
            }
            assert_eq!(dg.finalize(), whole, "total {total} step {step}");
            assert_eq!(dg64.finalize(), whole64);
        }
    }
    // sensitivity: head byte, boundary byte, length
    let mut d2 = data.clone();
    d2[5] ^= 1;
    assert_ne!(C.checksum(&d2[..100]), C.checksum(&data[..100]));
    let mut d3 = data.clone();
    d3[4096] ^= 1;
    assert_ne!(C.checksum(&d3[..5000]), C.checksum(&data[..5000]));
    assert_ne!(C.checksum(&data[..5000]), C.checksum(&data[..5001]));
}
