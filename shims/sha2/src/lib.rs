//! Verification shim for `sha2` (see shims/crc): assumed contract "SHA-256 is a deterministic function of the byte
//! sequence, independent of chunking"; the real compression function is far outside CBMC's reach for symbolic data.
//! Same sampled fold as the crc shim (first 16 stream positions, neighbourhoods of multiples of 4096, total length),
//! spread over 32 output bytes.
#![no_std]

pub trait Digest {
    fn new() -> Self;
    fn update(&mut self, data: impl AsRef<[u8]>);
    fn finalize(self) -> [u8; 32];
}

#[derive(Clone)]
pub struct Sha256 {
    s: [u64; 4],
    count: u64,
}

const HEAD: u64 = 16;
const BLOCK: u64 = 4096;

impl Sha256 {
    fn mix(&mut self, b: u8) {
        let s = &mut self.s;
        s[0] = (s[0].rotate_left(11) ^ (b as u64)).wrapping_add(0x9E37_79B9_7F4A_7C15);
        s[1] = (s[1].rotate_left(7) ^ s[0]).wrapping_add(b as u64);
        s[2] = (s[2].rotate_left(13) ^ (b as u64).rotate_left(17)).wrapping_add(s[1]);
        s[3] = s[3].rotate_left(5) ^ s[2];
    }
}

impl Digest for Sha256 {
    fn new() -> Self {
        Sha256 { s: [0x6A09_E667_F3BC_C908, 0xBB67_AE85_84CA_A73B, 0x3C6E_F372_FE94_F82B, 0xA54F_F53A_5F1D_36F1], count: 0 }
    }
    fn update(&mut self, data: impl AsRef<[u8]>) {
        let bytes = data.as_ref();
        let len = bytes.len() as u64;
        if len == 0 {
            return;
        }
        assert!(len <= 3 * BLOCK, "verification shim: update() slices are limited to 12 KiB");
        let count = self.count;
        let end = count + len;
        let first = (count / BLOCK) * BLOCK;
        if 0 >= count && 0 < end { self.mix(bytes[(0 - count) as usize]); }
        if 1 >= count && 1 < end { self.mix(bytes[(1 - count) as usize]); }
        if 2 >= count && 2 < end { self.mix(bytes[(2 - count) as usize]); }
        if 3 >= count && 3 < end { self.mix(bytes[(3 - count) as usize]); }
        if 4 >= count && 4 < end { self.mix(bytes[(4 - count) as usize]); }
        if 5 >= count && 5 < end { self.mix(bytes[(5 - count) as usize]); }
        if 6 >= count && 6 < end { self.mix(bytes[(6 - count) as usize]); }
        if 7 >= count && 7 < end { self.mix(bytes[(7 - count) as usize]); }
        if 8 >= count && 8 < end { self.mix(bytes[(8 - count) as usize]); }
        if 9 >= count && 9 < end { self.mix(bytes[(9 - count) as usize]); }
        if 10 >= count && 10 < end { self.mix(bytes[(10 - count) as usize]); }
        if 11 >= count && 11 < end { self.mix(bytes[(11 - count) as usize]); }
        if 12 >= count && 12 < end { self.mix(bytes[(12 - count) as usize]); }
        if 13 >= count && 13 < end { self.mix(bytes[(13 - count) as usize]); }
        if 14 >= count && 14 < end { self.mix(bytes[(14 - count) as usize]); }
        if 15 >= count && 15 < end { self.mix(bytes[(15 - count) as usize]); }
        { let m = first + 0 * BLOCK; if m + 0 >= 1 { let q = m + 0 - 1; if q >= HEAD && q >= count && q < end { self.mix(bytes[(q - count) as usize]); } } }
        { let m = first + 0 * BLOCK; if m + 1 >= 1 { let q = m + 1 - 1; if q >= HEAD && q >= count && q < end { self.mix(bytes[(q - count) as usize]); } } }
        { let m = first + 0 * BLOCK; if m + 2 >= 1 { let q = m + 2 - 1; if q >= HEAD && q >= count && q < end { self.mix(bytes[(q - count) as usize]); } } }
        { let m = first + 1 * BLOCK; if m + 0 >= 1 { let q = m + 0 - 1; if q >= HEAD && q >= count && q < end { self.mix(bytes[(q - count) as usize]); } } }
        { let m = first + 1 * BLOCK; if m + 1 >= 1 { let q = m + 1 - 1; if q >= HEAD && q >= count && q < end { self.mix(bytes[(q - count) as usize]); } } }
        { let m = first + 1 * BLOCK; if m + 2 >= 1 { let q = m + 2 - 1; if q >= HEAD && q >= count && q < end { self.mix(bytes[(q - count) as usize]); } } }
        { let m = first + 2 * BLOCK; if m + 0 >= 1 { let q = m + 0 - 1; if q >= HEAD && q >= count && q < end { self.mix(bytes[(q - count) as usize]); } } }
        { let m = first + 2 * BLOCK; if m + 1 >= 1 { let q = m + 1 - 1; if q >= HEAD && q >= count && q < end { self.mix(bytes[(q - count) as usize]); } } }
        { let m = first + 2 * BLOCK; if m + 2 >= 1 { let q = m + 2 - 1; if q >= HEAD && q >= count && q < end { self.mix(bytes[(q - count) as usize]); } } }
        { let m = first + 3 * BLOCK; if m + 0 >= 1 { let q = m + 0 - 1; if q >= HEAD && q >= count && q < end { self.mix(bytes[(q - count) as usize]); } } }
        { let m = first + 3 * BLOCK; if m + 1 >= 1 { let q = m + 1 - 1; if q >= HEAD && q >= count && q < end { self.mix(bytes[(q - count) as usize]); } } }
        { let m = first + 3 * BLOCK; if m + 2 >= 1 { let q = m + 2 - 1; if q >= HEAD && q >= count && q < end { self.mix(bytes[(q - count) as usize]); } } }
        self.count = end;
    }
    fn finalize(mut self) -> [u8; 32] {
        let n = self.count;
        self.mix(n as u8);
        self.mix((n >> 8) as u8);
        self.mix((n >> 16) as u8);
        self.mix((n >> 24) as u8);
        let (a, b, c, d) = (self.s[0].to_le_bytes(), self.s[1].to_le_bytes(), self.s[2].to_le_bytes(), self.s[3].to_le_bytes());
        [a[0], a[1], a[2], a[3], a[4], a[5], a[6], a[7], b[0], b[1], b[2], b[3], b[4], b[5], b[6], b[7],
         c[0], c[1], c[2], c[3], c[4], c[5], c[6], c[7], d[0], d[1], d[2], d[3], d[4], d[5], d[6], d[7]]
    }
}
