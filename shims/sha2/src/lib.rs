//! Verification shim for `sha2` (see shims/crc): assumed contract "SHA-256 is a deterministic function of the
//! byte sequence"; the real compression function is far outside CBMC's reach for symbolic data.
#![no_std]

pub trait Digest {
    fn new() -> Self;
    fn update(&mut self, data: impl AsRef<[u8]>);
    fn finalize(self) -> [u8; 32];
}

#[derive(Clone)]
pub struct Sha256 {
    s: [u8; 32],
    n: usize,
}

impl Digest for Sha256 {
    fn new() -> Self {
        let mut s = [0u8; 32];
        let mut i = 0;
        while i < 32 {
            s[i] = (i as u8).wrapping_mul(37).wrapping_add(11);
            i += 1;
        }
        Sha256 { s, n: 0 }
    }
    fn update(&mut self, data: impl AsRef<[u8]>) {
        let d = data.as_ref();
        let mut i = 0;
        while i < d.len() {
            let k = self.n % 32;
            let prev = self.s[(k + 31) % 32];
            self.s[k] = (self.s[k].rotate_left(3) ^ d[i]).wrapping_add(prev).wrapping_add(0x9D);
            self.n = self.n.wrapping_add(1);
            i += 1;
        }
    }
    fn finalize(self) -> [u8; 32] {
        let mut out = self.s;
        out[0] ^= self.n as u8;
        out[1] ^= (self.n >> 8) as u8;
        out
    }
}
