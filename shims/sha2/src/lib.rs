//! Verification shim for `sha2` (see shims/crc): assumed contract "SHA-256 is a deterministic function of the
//! byte sequence"; the real compression function is far outside CBMC's reach for symbolic data.
#![no_std]

pub trait Digest {
    fn new() -> Self;
    fn update(&mut self, data: impl AsRef<[u8]>);
    fn finalize(self) -> [u8; 32];
}

#[derive(Clone)]
pub struct Sha256 {
    s: [u8; 32],
    n: usize,
}

impl Sha256 {
    fn mix(&mut self, b: u8) {
        let k = self.n % 32;
        let prev = self.s[(k + 31) % 32];
        self.s[k] = (self.s[k].rotate_left(3) ^ b).wrapping_add(prev).wrapping_add(0x9D);
        self.n = self.n.wrapping_add(1);
    }
}

impl Digest for Sha256 {
    fn new() -> Self {
        let mut s = [0u8; 32];
        let mut i = 0;
        while i < 32 {
            s[i] = (i as u8).wrapping_mul(37).wrapping_add(11);
            i += 1;
        }
        Sha256 { s, n: 0 }
    }
    fn update(&mut self, data: impl AsRef<[u8]>) {
        let d = data.as_ref();
        if d.len() > 16 {
            // long inputs: fixed sample of positions + length (see shims/crc)
            let l = d.len();
            let pos = [0, 1, l / 4, l / 2, l / 2 + 1, (l / 4) * 3, l - 2, l - 1];
            let mut k = 0;
            while k < 8 {
                self.mix(d[pos[k]]);
                k += 1;
            }
            self.mix(l as u8);
            self.mix((l >> 8) as u8);
            self.mix((l >> 16) as u8);
            return;
        }
        let mut i = 0;
        while i < d.len() {
            self.mix(d[i]);
            i += 1;
        }
    }
    fn finalize(self) -> [u8; 32] {
        let mut out = self.s;
        out[0] ^= self.n as u8;
        out[1] ^= (self.n >> 8) as u8;
        out
    }
}
