#!/bin/bash
# usage: tools/seedtest.sh <seeded id> <unit> [<unit>...]  : applies the seeded patch to /repo, runs the units, restores /repo
set -u
id=$1; shift
cd /repo && git diff --quiet || { echo "/repo not clean"; exit 3; }
git -C /repo apply /verif/seeded/$id/patch.diff || { echo "patch does not apply"; exit 3; }
cd /verif
args=""; for u in "$@"; do args="$args --unit $u"; done
python3 vcheck.py $args 2>&1 | grep -E "^(PASS|FAIL|VIOLATION|UNDECIDED|SUMMARY)"
rc=$?
git -C /repo checkout -- .
exit 0
