#!/usr/bin/env python3
"""Scratch copy of /repo + insert-only injection of harness modules and contract attributes.

Nothing in /repo is ever written.  In the scratch copy no existing line of a source file is
changed or removed: harness modules are appended at the end of the file they belong to,
contract attributes are inserted on their own lines in front of the anchored `fn`.
"""
import hashlib
import json
import os
import re
import shutil
import subprocess

VERIF = os.path.dirname(os.path.dirname(os.path.abspath(__file__)))
REPO = os.environ.get("VERIF_REPO", "/repo")
KANI_DIR = os.path.join(VERIF, "kani")


def sha256(s):
    return hashlib.sha256(s.encode()).hexdigest()


def make_scratch(dst):
    """rsync the current working tree of /repo (src, Cargo.toml, Cargo.lock) into dst."""
    os.makedirs(dst, exist_ok=True)
    subprocess.check_call(
        ["rsync", "-a", "--delete", "--exclude", "target", "--exclude", ".git", "--exclude", "tests",
         "--exclude", "benches", "--exclude", "assets", REPO + "/", dst + "/"])
    ct = os.path.join(dst, "Cargo.toml")
    t = open(ct).read()
    # dev-dependencies (criterion, liblzma) and the bench target are not needed and slow the build
    t = re.sub(r"\[dev-dependencies\].*?(?=\n\[)", "", t, flags=re.S)
    t = re.sub(r"\[\[bench\]\].*?(?=\n\[)", "", t, flags=re.S)
    if os.environ.get("VERIF_REAL_CRC") != "1":
        # dependency contracts: crc / sha2 are replaced by shims (assumed: checksum = deterministic function of bytes)
        shims = os.path.join(VERIF, "shims")
        t = re.sub(r'crc = \{[^}]*\}', 'crc = { path = "%s/crc", optional = true }' % shims, t)
        t = re.sub(r'sha2 = \{[^}]*\}', 'sha2 = { path = "%s/sha2", optional = true }' % shims, t)
        lock = os.path.join(dst, "Cargo.lock")
        if os.path.exists(lock):
            os.remove(lock)
    if "[lints.rust]" not in t:
        t += '\n[lints.rust]\nunexpected_cfgs = { level = "allow", check-cfg = ["cfg(kani)", "cfg(verif_replay)"] }\n'
    open(ct, "w").write(t)
    cfgdir = os.path.join(dst, ".cargo")
    os.makedirs(cfgdir, exist_ok=True)
    open(os.path.join(cfgdir, "config.toml"), "w").write("[net]\noffline = true\n")
    return dst


ATTR_RE = re.compile(r"^(\s*)#\[kani::", re.M)
PROOF_RE = re.compile(r"#\[kani::proof(?:_for_contract\([^)]*\))?\]((?:\s*#\[[^\n]*\])*)\s*(?:pub(?:\([^)]*\))?\s+)?fn\s+(\w+)\s*\(")


def harness_names(text):
    return [m.group(2) for m in PROOF_RE.finditer(text)]


def load_macros():
    import importlib.util
    p = os.path.join(KANI_DIR, "macros.py")
    spec = importlib.util.spec_from_file_location("kmacros", p)
    m = importlib.util.module_from_spec(spec)
    spec.loader.exec_module(m)
    return m.MACROS


def expand_macros(text):
    """a line `//@NAME` in a harness file stands for the attribute lines MACROS[NAME] (kani/macros.py)"""
    macros = load_macros()
    out = []
    for line in text.split("\n"):
        m = re.match(r"^(\s*)//@(\w+)\s*$", line)
        if m and m.group(2) in macros:
            out += [m.group(1) + a for a in macros[m.group(2)]]
        else:
            out.append(line)
    return "\n".join(out)


def rewrite_attrs(text):
    """#[kani::x(..)] -> #[cfg_attr(kani, kani::x(..))] so the same text compiles natively for replay."""
    out = []
    for line in text.split("\n"):
        m = re.match(r"^(\s*)#\[(kani::.*)\]\s*$", line)
        if m:
            out.append("%s#[cfg_attr(kani, %s)]" % (m.group(1), m.group(2)))
        else:
            out.append(line)
    return "\n".join(out)


def module_path_of(rel):
    """src-relative file path -> rust module path (for harness pretty names)."""
    p = rel[:-3]
    if p == "lib":
        return ""
    if p.endswith("/mod"):
        p = p[:-4]
    return p.replace("/", "::")


def inject_harness_file(scratch, rel, log):
    """Append /verif/kani/<rel> to <scratch>/src/<rel>."""
    hpath = os.path.join(KANI_DIR, rel)
    spath = os.path.join(scratch, "src", rel)
    if not os.path.exists(spath):
        raise FileNotFoundError("anchor file missing in repo: src/" + rel)
    text = expand_macros(open(hpath).read())
    src = open(spath).read()
    if rel == "lib.rs":
        # many stacked #[kani::stub] attributes exceed rustc's default macro recursion limit (inserted line, nothing changed)
        # allocator_api (Kani build only): the BTreeMap contract stubs must repeat std's allocator type parameter
        src = "#![recursion_limit = \"1024\"]\n#![cfg_attr(kani, feature(allocator_api))]\n" + src
        addition = "\n\n// ---- injected by /verif (insert-only) ----\n" + rewrite_attrs(text) + "\n"
    else:
        names = harness_names(text)
        tests = "\n".join(
            "    #[cfg(all(verif_replay, not(kani)))]\n    #[test]\n    fn vr_%s() { crate::vk::replay_begin(); %s(); }" % (n, n)
            for n in names)
        addition = (
            "\n\n// ---- injected by /verif (insert-only) ----\n"
            "#[cfg(any(kani, verif_replay))]\n#[allow(unused, clippy::all)]\npub(crate) mod verif_kani {\n    use super::*;\n    use crate::vk;\n"
            + rewrite_attrs(text) + "\n" + tests + "\n}\n")
    open(spath, "w").write(src + addition)
    log.append({"file": "src/" + rel, "appended_lines": addition.count("\n"), "harness_sha256": sha256(text)})


def find_fn_line(lines, fn_name, impl_name=None):
    """Return index of the line holding `fn fn_name` (inside `impl ... impl_name` if given).
    Brace-aware only as far as needed: the first `fn` match after the impl header."""
    start = 0
    if impl_name:
        pat = re.compile(r"^\s*impl\b.*\b%s\b" % re.escape(impl_name))
        cands = [i for i, l in enumerate(lines) if pat.search(l)]
        if not cands:
            return None
        for c in cands:
            depth = 0
            seen = False
            for i in range(c, len(lines)):
                l = lines[i]
                if re.search(r"\bfn\s+%s\s*[<(]" % re.escape(fn_name), l) and seen:
                    return i
                depth += l.count("{") - l.count("}")
                if "{" in l:
                    seen = True
                if seen and depth <= 0:
                    break
        return None
    in_block = False
    for i in range(start, len(lines)):
        # skip `/* ... */` block comments (src/range_dec.rs keeps a commented-out old version of a function)
        if in_block:
            if "*/" in lines[i]:
                in_block = False
            continue
        if lines[i].strip().startswith("/*") and "*/" not in lines[i]:
            in_block = True
            continue
        if re.search(r"\bfn\s+%s\s*[<(]" % re.escape(fn_name), lines[i]):
            return i
    return None


def inject_contracts(scratch, contracts, log):
    """contracts: list of {file, fn, impl?, attrs:[...]} — attribute lines are inserted before the fn
    (and before the attributes/doc comments directly attached to it)."""
    byfile = {}
    for c in contracts:
        byfile.setdefault(c["file"], []).append(c)
    for rel, cs in byfile.items():
        spath = os.path.join(scratch, rel)
        lines = open(spath).read().split("\n")
        inserts = []
        for c in cs:
            i = find_fn_line(lines, c["fn"], c.get("impl"))
            if i is None:
                raise KeyError("contract anchor missing: %s %s::%s" % (rel, c.get("impl", ""), c["fn"]))
            while i > 0 and re.match(r"^\s*(#\[|///)", lines[i - 1]):
                i -= 1
            inserts.append((i, c["attrs"]))
        for i, attrs in sorted(inserts, reverse=True):
            indent = re.match(r"^\s*", lines[i]).group(0)
            lines[i:i] = [indent + a for a in attrs]
            log.append({"file": rel, "before_line": i + 1, "inserted": attrs})
        open(spath, "w").write("\n".join(lines))


def fn_span(path, fn_name, impl_name=None):
    """Exact source text of a function (signature through closing brace). Used for sha256 in evidence
    and by the Verus extractor."""
    text = open(path).read()
    lines = text.split("\n")
    i = find_fn_line(lines, fn_name, impl_name)
    if i is None:
        return None
    depth = 0
    seen = False
    out = []
    for j in range(i, len(lines)):
        l = lines[j]
        out.append(l)
        # ignore braces in comments/strings conservatively: the repo has none on fn lines that matter
        code = re.sub(r"//.*$", "", l)
        code = re.sub(r'"(?:[^"\\]|\\.)*"', '""', code)
        code = re.sub(r"'\\?.'", "''", code)
        depth += code.count("{") - code.count("}")
        if "{" in code:
            seen = True
        if seen and depth == 0:
            return "\n".join(out)
    return None


if __name__ == "__main__":
    import sys
    d = make_scratch(sys.argv[1])
    lg = []
    for rel in sys.argv[2:]:
        inject_harness_file(d, rel, lg)
    print(json.dumps(lg, indent=1))
