#!/bin/bash
# usage: tools/seedsweep.sh "<seed> <unit> [<unit>..]" ...  : runs each seeded change against the named units (EXCLUSIVE use of /repo)
cd /verif
for spec in "$@"; do
  set -- $spec; id=$1; shift
  echo "== $id vs $*"
  tools/patchtest.sh /verif/seeded/$id/patch.diff "$@" | tee /tmp/sweep_$id.txt | grep -E "^(PASS|FAIL|UNDECIDED|SUMMARY)" | cut -c1-200
done
