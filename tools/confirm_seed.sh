#!/bin/bash
# usage: confirm_seed.sh <worktree> <outdir>   -- confirms a seeded change written by a sub-agent:
#  demo fails with the patch, passes without; existing suite gives the same result list as the baseline list
# (baseline list: /tmp/wt/baseline.list, produced by running the same command in an unchanged worktree)
wt=$1; out=$2; J=${J:-6}
cd $wt || exit 3
git checkout -q -- src; git apply $out/patch.diff || { echo "patch does not apply"; exit 3; }
place=$(python3 -c "import json;print(json.load(open('$out/meta.json')).get('demo_placement','tests/seeded_demo.rs'))")
cmd=$(python3 -c "import json;print(json.load(open('$out/meta.json'))['demo_cmd'])")
mkdir -p $(dirname $place); cp $out/seeded_demo.rs $place
echo "== demo WITH change: $cmd"
( timeout 900 bash -c "$cmd" ) > $out/confirm_with.log 2>&1; rc_with=$?
git checkout -q -- src
echo "== demo WITHOUT change"
( timeout 900 bash -c "$cmd" ) > $out/confirm_without.log 2>&1; rc_without=$?
git apply $out/patch.diff
echo "demo rc with=$rc_with without=$rc_without"
echo "== suite WITH change"
rm -f $place.bak; mv $place /tmp/$(basename $wt)_demo.rs.bak
timeout 2400 cargo test --workspace --no-fail-fast --offline -j $J -- --skip issue_44_7z 2>&1 | grep -E "^test .* \.\.\. (ok|FAILED|ignored)" | sort > $out/confirm_suite.list
mv /tmp/$(basename $wt)_demo.rs.bak $place
if diff -q /tmp/wt/baseline.list $out/confirm_suite.list >/dev/null; then echo "suite identical ($(wc -l < $out/confirm_suite.list) lines)"; same=1; else echo "SUITE DIFFERS"; diff /tmp/wt/baseline.list $out/confirm_suite.list | head; same=0; fi
[ $rc_with -ne 0 ] && [ $rc_without -eq 0 ] && [ $same -eq 1 ] && echo CONFIRMED || echo NOT-CONFIRMED
