#!/bin/bash
# runs the quick check of every claimed property, one after the other; prints rc and wall time per property
cd /verif
echo $$ > /tmp/runall.pid
for p in $(python3 -c "import json;print(' '.join(c['property_id'] for c in json.load(open('MANIFEST.json'))['checks']))"); do
  s=$(date +%s)
  python3 vcheck.py --property $p --tier ${1:-quick} > /tmp/runall_$p.log 2>&1 &
  echo $! > /tmp/runall_child.pid
  wait $!
  rc=$?
  e=$(date +%s)
  echo "$p rc=$rc wall=$((e-s))s $(grep -c '^PASS' /tmp/runall_$p.log) pass $(grep -c '^UNDECIDED' /tmp/runall_$p.log) undecided $(grep -c '^VIOLATION' /tmp/runall_$p.log) violations"
done
rm -f /tmp/runall.pid /tmp/runall_child.pid
