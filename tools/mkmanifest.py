#!/usr/bin/env python3
"""Regenerates /verif/MANIFEST.json from units.py + manifest_meta.py (claimed properties = those with units)."""
import json, os, sys
VERIF = os.path.dirname(os.path.dirname(os.path.abspath(__file__)))
sys.path.insert(0, VERIF)
import units as U
import manifest_meta as M

props = [json.loads(l) for l in open(os.path.join(VERIF, "properties.jsonl"))]
claimed = sorted({p for u in U.UNITS for p in u["props"]})
checks, na = [], []
for p in props:
    pid = p["id"]
    if pid in claimed and pid not in M.NOT_APPLICABLE:
        meta = M.CHECKS.get(pid, {})
        us = [u for u in U.UNITS if pid in u["props"]]
        nb = len([u for u in us if u["kind"] == "bounded"])
        checks.append({
            "property_id": pid,
            "quick_cmd": "python3 vcheck.py --property %s --tier quick" % pid,
            "thorough_cmd": "python3 vcheck.py --property %s --tier thorough" % pid,
            "evidence_file": "evidence/%s.json" % pid,
            "replay_cmd_template": "python3 vcheck.py --replay {path}",
            "engine": "vcheck",
            "level_claimed": {"category": "proof" if any(u["kind"] == "complete" for u in us) else "model_checking",
                              "text": meta.get("text", "contracts on the real functions discharged by Kani/CBMC (complete over the stated machine domains) and Verus; bounded stand-ins are reported separately and not counted"),
                              "design_ref": "DESIGN.md section 3, %s" % pid},
            "level_note": meta.get("note", "") + (" %d of %d units are bounded stand-ins (listed in evidence.bounded_units)." % (nb, len(us))),
            "technique": meta.get("technique", "contract-based deductive verification of the real code (Kani function/harness contracts + Verus)"),
        })
    else:
        na.append({"property_id": pid, "reason": M.NOT_APPLICABLE.get(pid, "no unit built yet for this property (work in progress)")})
man = {
    "version": 1,
    "setup_cmd": "python3 tools/setup_check.py",
    "hooks": {"guard": "kani (cfg set by cargo-kani) / verif_replay; both exist only in the scratch copy the checks build, /repo carries no hook code",
              "enable": "checks rsync /repo's working tree to /var/tmp/lzma-verif.<pid>.*, append harness modules (insert-only) and run cargo kani / verus there",
              "baseline_off_cmd": "cd /repo && cargo test --workspace --no-fail-fast --offline",
              "source_commits": [], "add_only": True},
    "engines": [{"name": "vcheck", "path": "vcheck.py", "serves_properties": [c["property_id"] for c in checks],
                 "kind_free_text": "driver: scratch copy + insert-only harness injection + cargo kani (CBMC) + verus on extracted spans + native replay"}],
    "checks": checks,
    "not_applicable": na,
    "notes": M.NOTES,
}
json.dump(man, open(os.path.join(VERIF, "MANIFEST.json"), "w"), indent=1)
print("claimed:", [c["property_id"] for c in checks], "n/a:", [x["property_id"] for x in na])
