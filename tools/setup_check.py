#!/usr/bin/env python3
"""setup: nothing to build (the driver is Python; Kani/Verus are pre-installed). Verifies the tools respond offline."""
import shutil, subprocess, sys
ok = True
for tool in ("cargo-kani", "verus", "cbmc", "rsync"):
    if shutil.which(tool) is None:
        print("missing tool:", tool); ok = False
print("setup ok" if ok else "setup incomplete")
sys.exit(0 if ok else 1)
