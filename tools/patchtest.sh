#!/bin/bash
# usage: tools/patchtest.sh <patch file> <unit> [<unit>...] : applies a patch to /repo, runs the units, restores /repo
set -u
pf=$1; shift
cd /repo && git diff --quiet || { echo "/repo not clean"; exit 3; }
git -C /repo apply $pf || { echo "patch does not apply"; exit 3; }
cd /verif
args=""; for u in "$@"; do args="$args --unit $u"; done
python3 vcheck.py $args 2>&1 | grep -E "^(PASS|FAIL|VIOLATION|UNDECIDED|SUMMARY)" | cut -c1-260
git -C /repo checkout -- .
exit 0
