#!/usr/bin/env python3
"""Verus route: cut the exact source span of the listed functions out of the scratch copy of /repo, wrap them in a
verus!{} file, apply an insert-only overlay (requires/ensures after the signature, invariants after loop heads, proof
lines after anchored statements) and run `verus file.rs`.

What the extraction changes (complete list, also written into the evidence):
  * attributes (#[inline], #[cfg..]) and doc comments in front of the fn are not copied
  * the return type `-> T` of a contracted fn is rewritten to the named form `-> (r: T)` Verus needs for `ensures`
  * struct definitions are copied with the fields listed in `drop_fields` removed (fn-pointer fields Verus rejects)
  * `use` lines are not copied; everything else is byte-identical to /repo (sha256 of each span is recorded)
"""
import hashlib
import json
import os
import re
import subprocess
import sys
import time

sys.path.insert(0, os.path.dirname(os.path.abspath(__file__)))
import inject  # noqa: E402

VERIF = os.path.dirname(os.path.dirname(os.path.abspath(__file__)))


def struct_span(path, name):
    text = open(path).read()
    m = re.search(r"^(pub(\([^)]*\))?\s+)?struct\s+%s\b[^{;]*\{" % re.escape(name), text, re.M)
    if not m:
        return None
    depth = 0
    for j in range(m.end() - 1, len(text)):
        if text[j] == "{":
            depth += 1
        elif text[j] == "}":
            depth -= 1
            if depth == 0:
                return text[m.start():j + 1]
    return None


def apply_overlay(fn_text, ov):
    lines = fn_text.split("\n")
    # 1. signature: find the line that ends the signature (first line ending with '{' at depth 0)
    sig_end = next(i for i, l in enumerate(lines) if l.rstrip().endswith("{"))
    sig = "\n".join(lines[:sig_end + 1])
    body = lines[sig_end + 1:]
    contract = ov.get("requires", []), ov.get("ensures", [])
    if ov.get("ret"):
        sig = re.sub(r"->\s*([^\{]+?)\s*\{\s*$", lambda m: "-> (%s: %s)\n{" % (ov["ret"], m.group(1).strip()), sig)
    head = sig.rstrip()
    assert head.endswith("{")
    head = head[:-1].rstrip()
    extra = []
    if contract[0]:
        extra.append("    requires\n" + "\n".join("        %s," % c for c in contract[0]))
    if contract[1]:
        extra.append("    ensures\n" + "\n".join("        %s," % c for c in contract[1]))
    if ov.get("decreases_fn"):
        extra.append("    decreases %s" % ov["decreases_fn"])
    out = [head] + extra + ["{"]
    # 2. loops: n-th `while`/`loop`/`for` head in source order
    loop_no = -1
    after = list(ov.get("after", []))
    for l in body:
        m = re.match(r"^(\s*)(while\b.*|loop\s*|for\b.*)\{\s*$", l)
        if m:
            loop_no += 1
            inv = ov.get("loops", {}).get(str(loop_no))
            if inv:
                out.append(l.rstrip()[:-1].rstrip())
                ind = m.group(1)
                if inv.get("invariant"):
                    out.append(ind + "    invariant\n" + "\n".join(ind + "        %s," % c for c in inv["invariant"]))
                if inv.get("decreases"):
                    out.append(ind + "    decreases %s" % inv["decreases"])
                out.append(ind + "{")
                if inv.get("body_first"):
                    out += [ind + "    " + x for x in inv["body_first"]]
                continue
        for a in list(after):
            if a.get("before") and a["before"] in l:
                ind = re.match(r"^\s*", l).group(0)
                out += [ind + x for x in a["lines"]]
                after.remove(a)
        out.append(l)
        for a in list(after):
            if a.get("match") and a["match"] in l:
                ind = re.match(r"^\s*", l).group(0)
                out += [ind + x for x in a["lines"]]
                after.remove(a)
    if after:
        raise KeyError("overlay anchors not found: %s" % [a.get("match") or a.get("before") for a in after])
    return "\n".join(out)


def build_file(unit, scratch):
    spec = json.load(open(os.path.join(VERIF, "verus", unit["verus"])))
    parts = ["use vstd::prelude::*;", "verus! {", ""]
    spans = []
    for s in spec.get("prelude", []):
        parts.append(s)
    for st in spec.get("structs", []):
        path = os.path.join(scratch, st["file"])
        span = struct_span(path, st["name"])
        if span is None:
            raise KeyError("struct anchor missing: %s %s" % (st["file"], st["name"]))
        spans.append({"item": "struct " + st["name"], "file": st["file"], "sha256": hashlib.sha256(span.encode()).hexdigest()[:16]})
        keep = [l for l in span.split("\n") if not any(re.search(r"\b%s\s*:" % re.escape(f), l) for f in st.get("drop_fields", []))]
        keep = [re.sub(r"pub\(crate\)\s+", "pub ", l) for l in keep]
        keep = [l if re.match(r"^\s*(pub\s|\}|struct|pub struct)", l) or not re.match(r"^\s*\w+\s*:", l) else re.sub(r"^(\s*)", r"\1pub ", l) for l in keep]
        parts.append("\n".join(keep))
        parts.append("")
    byimpl = {}
    for f in spec["functions"]:
        path = os.path.join(scratch, f["file"])
        span = inject.fn_span(path, f["fn"], f.get("impl"))
        if span is None:
            raise KeyError("fn anchor missing: %s %s" % (f["file"], f["fn"]))
        spans.append({"item": "fn " + f["fn"], "file": f["file"], "sha256": hashlib.sha256(span.encode()).hexdigest()[:16]})
        text = apply_overlay(span, f.get("overlay", {}))
        byimpl.setdefault(f.get("impl"), []).append(text)
    for impl, fns in byimpl.items():
        if impl:
            parts.append("impl %s {" % impl)
            parts += fns
            parts.append("}")
        else:
            parts += fns
    for s in spec.get("lemmas", []):
        parts.append(s)
    parts += ["", "} // verus!", "fn main() {}", ""]
    return "\n".join(parts), spans, spec


def run_unit(unit, scratch, timeout_s):
    t0 = time.time()
    text, spans, spec = build_file(unit, scratch)
    out_rs = os.path.join(scratch, "verus_%s.rs" % re.sub(r"\W", "_", unit["id"]))
    open(out_rs, "w").write(text)
    cmd = ["verus", out_rs, "--output-json", "--time"] + spec.get("verus_args", [])
    try:
        p = subprocess.run(cmd, cwd=scratch, stdout=subprocess.PIPE, stderr=subprocess.PIPE, text=True, timeout=timeout_s)
    except subprocess.TimeoutExpired:
        return {"status": "UNDECIDED", "reason": "verus timeout", "harnesses": {}}
    res = {"status": "UNDECIDED", "reason": "", "harnesses": {}, "spans": spans, "output": p.stderr[-6000:] + p.stdout[-2000:]}
    try:
        js = json.loads(p.stdout)
    except Exception:
        js = None
    vr = (js or {}).get("verification-results", {})
    verified, errors = vr.get("verified", 0), vr.get("errors", 0)
    h = {"status": "UNDECIDED", "reason": "", "checks": verified + errors, "passed": verified, "unreachable": 0, "covers": 0,
         "covers_unsat": 0, "failed": [], "time_s": time.time() - t0, "solver_s": 0.0, "role": "obligation",
         "samples": [{"check": "verus: %d verified, %d errors (functions+loops of %s)" % (verified, errors, ", ".join(s["item"] for s in spans))}]}
    if js is None or not vr:
        m = re.search(r"error[^\n]*\n[^\n]*", p.stderr)
        h["reason"] = res["reason"] = "verus produced no result (front-end error / unsupported construct): " + (m.group(0)[:300] if m else p.stderr[-300:])
    elif vr.get("encountered-vir-error") or (errors == 0 and not vr.get("success") and verified == 0):
        h["reason"] = res["reason"] = "verus front-end (VIR) error: " + p.stderr[-400:]
    elif errors > 0:
        msgs = re.findall(r"error: ([^\n]+)\n\s+--> [^\n]*:(\d+):", p.stderr)
        rl = [m for m in msgs if "rlimit" in m[0] or "timed out" in m[0] or "resource limit" in m[0].lower()]
        if rl and len(rl) == len(msgs):
            h["reason"] = res["reason"] = "resource limit exceeded"
        else:
            h["status"] = res["status"] = "FAIL"
            h["failed"] = [{"description": m[0], "location": "extracted:%s" % m[1], "category": "verus"} for m in msgs[:6]]
            h["reason"] = res["reason"] = msgs[0][0] if msgs else "verus reported %d errors" % errors
            res["failed"] = h["failed"]
    elif verified == 0:
        h["reason"] = res["reason"] = "zero obligations verified"
    else:
        h["status"] = res["status"] = "PASS"
    res["harnesses"]["verus:" + unit["id"]] = h
    return res


if __name__ == "__main__":
    sys.path.insert(0, VERIF)
    import units as U
    u = U.by_id()[sys.argv[1]]
    d = inject.make_scratch("/var/tmp/lzma-verif.vx")
    t, spans, _ = build_file(u, d)
    print(t)
