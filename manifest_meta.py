"""Per-property texts for MANIFEST.json (tools/mkmanifest.py)."""
NOTES = ("Every check rebuilds from /repo's working tree. exit 0 = all units PASS; exit 1 = VIOLATION line(s); "
         "exit 2 = no violation but a unit is UNDECIDED (timeout, lost anchor, harness no longer compiles) - never an alarm.")
NOT_APPLICABLE = {
    "C09": "liveness under all thread schedules: Kani has no thread support and Verus would need the code rewritten onto its permission types (a model, different family); see DESIGN.md section 4",
}
CHECKS = {}
