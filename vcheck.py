#!/usr/bin/env python3
"""Driver: decides one property of /verif/properties.jsonl on /repo's current working tree.

  vcheck.py --property C02 --tier quick|thorough     run every unit of the property
  vcheck.py --unit C02.mbi [--keep]                   run one unit (development)
  vcheck.py --replay replays/C02/C02.mbi.json         re-run a stored counterexample natively
  vcheck.py --list                                    list units

exit 0: every unit PASS (known findings are printed as KNOWN-FINDING lines)
exit 1: at least one `VIOLATION property=<id> replay=<path>` line
exit 2: no violation, but at least one unit UNDECIDED (timeout, lost anchor, compile error, ...)
"""
import argparse
import json
import os
import re
import shutil
import signal
import subprocess
import sys
import time

VERIF = os.path.dirname(os.path.abspath(__file__))
sys.path.insert(0, os.path.join(VERIF, "tools"))
sys.path.insert(0, VERIF)
import inject  # noqa: E402
import units as units_mod  # noqa: E402

SCRATCH_ROOT = os.environ.get("VERIF_SCRATCH", "/var/tmp")
ENV = dict(os.environ, CARGO_NET_OFFLINE="true", CARGO_TERM_COLOR="never", RUST_BACKTRACE="0")
KEEP = False
_scratch_dirs = []


def cleanup(*_a):
    for d in ([] if KEEP else _scratch_dirs):
        shutil.rmtree(d, ignore_errors=True)
    if _a:
        sys.exit(2)


signal.signal(signal.SIGTERM, cleanup)
signal.signal(signal.SIGINT, cleanup)


def new_scratch(tag):
    d = os.path.join(SCRATCH_ROOT, "lzma-verif.%d.%s" % (os.getpid(), tag))
    shutil.rmtree(d, ignore_errors=True)
    _scratch_dirs.append(d)
    return inject.make_scratch(d)


def load_known():
    p = os.path.join(VERIF, "known_findings.json")
    if not os.path.exists(p):
        return {"known": [], "fixed": []}
    return json.load(open(p))


# ------------------------------------------------------------------------------------------ kani

def pretty(unit, h):
    """full harness path from unit file + harness fn name"""
    if "::" in h:
        return h
    mp = inject.module_path_of(unit["file"])
    return (mp + "::" if mp else "") + "verif_kani::" + h


def prepare(units, tag, extra_cfg=None):
    """scratch copy with every harness file / contract of `units` injected"""
    d = new_scratch(tag)
    log = []
    files = ["lib.rs"]
    for u in units:
        for f in [u.get("file")] + list(u.get("extra_files", [])):
            if f and f not in files and u.get("backend", "kani") == "kani":
                files.append(f)
    changed = True
    while changed:
        changed = False
        for f in list(files):
            for dep in units_mod.FILE_DEPS.get(f, []):
                if dep not in files:
                    files.append(dep)
                    changed = True
    for f in files:
        inject.inject_harness_file(d, f, log)
    contracts = []
    for u in units:
        contracts += u.get("contracts", [])
    if contracts:
        seen = set()
        uniq = []
        for c in contracts:
            k = json.dumps(c, sort_keys=True)
            if k not in seen:
                seen.add(k)
                uniq.append(c)
        inject.inject_contracts(d, uniq, log)
    return d, log


def run_kani(d, harnesses, timeout_s, jobs, features=None, extra=None):
    """one cargo kani invocation; returns (json or None, stdout, rc, wall)"""
    out_json = os.path.join(d, "kani_out.json")
    if os.path.exists(out_json):
        os.remove(out_json)
    cmd = ["cargo", "kani", "-Z", "stubbing", "-Z", "function-contracts", "-Z", "unstable-options",
           "--harness-timeout", "%ds" % timeout_s, "-j", str(jobs), "--output-format", "terse", "--exact",
           "--export-json", out_json]
    if features is not None:
        cmd += ["--no-default-features", "--features", features]
    for h in harnesses:
        cmd += ["--harness", h]
    if extra:
        cmd += extra
    t0 = time.time()
    # overall guard: compile + ceil(n/jobs) waves of the per-harness timeout
    waves = (len(harnesses) + jobs - 1) // jobs
    total = 300 + waves * (timeout_s + 30)
    try:
        p = subprocess.run(cmd, cwd=d, env=ENV, stdout=subprocess.PIPE, stderr=subprocess.STDOUT, text=True,
                           timeout=total)
        out, rc = p.stdout, p.returncode
    except subprocess.TimeoutExpired as e:
        out = (e.stdout or b"").decode(errors="replace") if isinstance(e.stdout, bytes) else (e.stdout or "")
        rc = 124
        subprocess.run(["pkill", "-x", "cbmc"], check=False)
    wall = time.time() - t0
    js = None
    if os.path.exists(out_json):
        try:
            js = json.load(open(out_json))
        except Exception:
            js = None
    return js, out, rc, wall


UNDECIDED_CATS = ("unwind", "unsupported_construct", "unsupported")


def classify(js, out, hname):
    """-> dict(status=PASS|FAIL|UNDECIDED, reason, checks, failed[], covers_unsat, time_s, solver_s)"""
    res = {"status": "UNDECIDED", "reason": "no result", "checks": 0, "failed": [], "time_s": 0.0,
           "solver_s": 0.0, "passed": 0, "unreachable": 0, "covers": 0, "covers_unsat": 0, "samples": []}
    if js is None:
        m = re.search(r"error(\[E\d+\])?: .*", out)
        res["reason"] = "kani produced no result file" + (": " + m.group(0)[:200] if m else "")
        return res
    r = next((x for x in js.get("verification_results", {}).get("results", []) if x["harness_id"] == hname), None)
    if r is None:
        res["reason"] = "harness not found in results (not compiled / filtered)"
        return res
    pd = next((x.get("property_details") for x in js.get("property_details", []) if x["harness_id"] == hname), None) or {}
    cb = next((x.get("cbmc_stats") for x in js.get("cbmc", []) if x["harness_id"] == hname), None) or {}
    checks = r.get("checks", [])
    res["time_s"] = r.get("duration_ms", 0) / 1000.0
    res["solver_s"] = float(cb.get("runtime_solver_s", 0) or 0) + float(cb.get("runtime_symex_s", 0) or 0)
    covers = (pd.get("satisfied") or 0) + (pd.get("unsatisfiable") or 0)
    res["covers"] = covers
    res["covers_unsat"] = pd.get("unsatisfiable") or 0
    res["checks"] = (pd.get("total_properties") or len(checks)) - covers
    res["passed"] = pd.get("passed") or 0
    res["unreachable"] = pd.get("unreachable") or 0
    if pd.get("error") and not checks:
        res["reason"] = "no checks reported (timeout / out of memory / tool error): %s" % pd.get("error")
        return res
    failed = [c for c in checks if c.get("status") in ("Failure", "Failed", "FAILURE")]
    undet = [c for c in checks if c.get("status") in ("Undetermined", "UNDETERMINED")]
    res["failed"] = [{"description": c.get("description"), "function": c.get("function"),
                      "location": "%s:%s" % (os.path.basename(str(c.get("location", {}).get("file"))),
                                             c.get("location", {}).get("line")),
                      "category": c.get("category")} for c in failed]
    res["samples"] = [{"check": c.get("description"), "in": c.get("function"), "status": c.get("status")}
                      for c in checks if c.get("category") == "assertion"][:3]
    st = r.get("status")
    if st == "Success":
        if res["checks"] <= 0:
            res["reason"] = "zero obligations generated"
        elif res["covers_unsat"] > 0:
            res["reason"] = "vacuity: %d cover(s) unsatisfiable" % res["covers_unsat"]
        else:
            res["status"], res["reason"] = "PASS", ""
        return res
    # failure: decide between real counterexample and tool limit
    if not checks and not failed:
        res["reason"] = "no checks reported (timeout / out of memory / tool error)"
        return res
    real = [f for f in res["failed"] if not any(k in str(f["category"]) for k in UNDECIDED_CATS)
            and "unwinding assertion" not in str(f["description"])]
    if real:
        res["status"], res["reason"] = "FAIL", real[0]["description"] or ""
        res["failed"] = real + [f for f in res["failed"] if f not in real]
    elif failed:
        res["reason"] = "tool limit: " + "; ".join(sorted(set("%s in %s" % (str(f["description"])[:60], str(f["function"])[-60:]) for f in res["failed"])))[:400]
    elif undet:
        res["reason"] = "undetermined checks (upstream unwinding / unsupported construct)"
    else:
        res["reason"] = "failed without failed checks (timeout?)"
    return res


# ---------------------------------------------------------------------------------------- replay

def playback_values(d, hname, timeout_s):
    cmd = ["cargo", "kani", "-Z", "stubbing", "-Z", "function-contracts", "-Z", "concrete-playback",
           "--concrete-playback=print", "--exact", "--harness", hname]
    try:
        p = subprocess.run(cmd, cwd=d, env=ENV, stdout=subprocess.PIPE, stderr=subprocess.STDOUT, text=True,
                           timeout=timeout_s)
    except subprocess.TimeoutExpired:
        subprocess.run(["pkill", "-x", "cbmc"], check=False)
        return None, "playback timed out"
    m = re.search(r"let concrete_vals: Vec<Vec<u8>> = vec!\[(.*?)\n\s*\];", p.stdout, re.S)
    if not m:
        return None, "no concrete values printed"
    vals = []
    for vm in re.finditer(r"vec!\[([0-9,\s]*)\]", m.group(1)):
        bs = [int(x) for x in vm.group(1).replace(" ", "").split(",") if x != ""]
        vals.append(bytes(bs).hex())
    comments = re.findall(r"//\s*(.*)", m.group(1))
    return {"hex": vals, "pretty": comments}, ""


def native_replay(unit, hname, values, tag="replay"):
    """run the same harness function natively in a fresh scratch copy; -> (result, output tail)"""
    if unit.get("contract_stubs") and hname.split("::")[-1] not in unit.get("replayable", []):
        return "unavailable", "harness uses contract stubs (%s): the native program differs from the verified one" % \
               ", ".join(unit["contract_stubs"])
    d, _ = prepare([unit], tag)
    fn = hname.split("::")[-1]
    test = hname.rsplit("::", 1)[0] + "::vr_" + fn
    env = dict(ENV, RUSTFLAGS="--cfg verif_replay", VERIF_REPLAY_VALUES=",".join(values.get("hex", [])))
    cmd = ["cargo", "test", "--offline", "--lib", test, "--", "--exact", "--nocapture", "--test-threads", "1"]
    try:
        p = subprocess.run(cmd, cwd=d, env=env, stdout=subprocess.PIPE, stderr=subprocess.STDOUT, text=True,
                           timeout=900)
    except subprocess.TimeoutExpired:
        return "timeout", ""
    finally:
        shutil.rmtree(d, ignore_errors=True)
    tail = "\n".join(p.stdout.strip().split("\n")[-25:])
    if "VERIF-REPLAY: assumption violated" in p.stdout:
        return "values-violate-assumption", tail
    if re.search(r"test result: FAILED", p.stdout) or "panicked at" in p.stdout:
        return "reproduced", tail
    if re.search(r"test result: ok\. 1 passed", p.stdout):
        return "not-reproduced", tail
    return "error", tail


def do_replay_file(path):
    rp = json.load(open(path))
    unit = units_mod.by_id()[rp["unit"]]
    if not rp.get("values"):
        print("replay file carries no input values (no-failing-input-found); failed obligation: %s" % rp["failed"])
        print(rp.get("verifier_output", "")[-3000:])
        return 1
    res, tail = native_replay(unit, rp["harness"], rp["values"])
    print(tail)
    print("REPLAY unit=%s harness=%s result=%s" % (rp["unit"], rp["harness"], res))
    return 1 if res == "reproduced" else 0


# ----------------------------------------------------------------------------------------- verus

def run_verus_unit(unit, d_repo_copy, timeout_s):
    import vextract
    return vextract.run_unit(unit, d_repo_copy, timeout_s)


# ------------------------------------------------------------------------------------------ main

def terse_tail(out, hname, n=60):
    """the part of kani's terse output that belongs to harness hname"""
    idx = out.find("Checking harness " + hname)
    if idx < 0:
        return out[-3000:]
    nxt = out.find("Checking harness ", idx + 10)
    return out[idx: nxt if nxt > 0 else idx + 6000][:6000]


def run_units(sel, tier, prop, keep=False, jobs=None):
    t_start = time.time()
    sel_eff = []
    for u in sel:
        if tier == "thorough" and u.get("thorough_harnesses"):
            u = dict(u, harnesses=u["harnesses"] + u["thorough_harnesses"])
        sel_eff.append(u)
    sel = sel_eff
    known = load_known()
    jobs = jobs or int(os.environ.get("VERIF_JOBS", "10"))
    timeout_s = int(os.environ.get("VERIF_UNIT_TIMEOUT", "900" if tier == "quick" else "1800"))
    kani_units = [u for u in sel if u.get("backend", "kani") == "kani"]
    verus_units = [u for u in sel if u.get("backend") == "verus"]
    results = {}   # unit id -> dict
    inj_log = []
    groups = {}
    for u in kani_units:
        groups.setdefault(u.get("features"), []).append(u)
    raw_out = {}
    for feat, us in groups.items():
        tag = "k" + (re.sub(r"\W", "", feat) if feat else "d")
        try:
            d, lg = prepare(us, tag)
            inj_log += lg
        except (FileNotFoundError, KeyError) as e:
            for u in us:
                results[u["id"]] = {"status": "UNDECIDED", "reason": "lost anchor: %s" % e, "harnesses": {}}
            continue
        hs = []
        for u in us:
            for h in u["harnesses"] + u.get("canaries", []) + [k["harness"] for k in u.get("known_findings", [])]:
                hs.append(pretty(u, h))
        tmax = max([timeout_s] + [u.get("timeout", 0) for u in us]) if tier == "thorough" else \
            max([timeout_s] + [u.get("timeout_quick", 0) for u in us])
        js, out, rc, wall = run_kani(d, hs, tmax, jobs, features=feat)
        raw_out[feat] = out
        # a harness that ends within seconds without any check is a tool crash (CBMC killed, transient OOM): retry it once
        if js is not None:
            crashed = []
            for hn in hs:
                c0 = classify(js, out, hn)
                if c0["status"] == "UNDECIDED" and c0["checks"] <= 0 and c0["time_s"] < 20 and "no checks reported" in c0["reason"]:
                    crashed.append(hn)
            if crashed:
                js2, out2, _rc2, _w2 = run_kani(d, crashed, tmax, min(jobs, 4), features=feat)
                if js2 is not None:
                    for key in ("property_details", "cbmc"):
                        js[key] = [x for x in js.get(key, []) if x["harness_id"] not in crashed] + js2.get(key, [])
                    res = js.get("verification_results", {})
                    res["results"] = [x for x in res.get("results", []) if x["harness_id"] not in crashed] + js2.get("verification_results", {}).get("results", [])
                    out += out2
        compile_err = js is None
        for u in us:
            ur = {"status": "PASS", "reason": "", "harnesses": {}}
            for h in u["harnesses"] + u.get("canaries", []):
                hn = pretty(u, h)
                c = classify(js, out, hn)
                c["role"] = "canary" if h in u.get("canaries", []) else "obligation"
                ur["harnesses"][hn] = c
                if c["status"] == "FAIL" and ur["status"] != "FAIL":
                    ur["status"], ur["reason"] = "FAIL", "%s: %s" % (h, c["reason"])
                elif c["status"] == "UNDECIDED" and ur["status"] == "PASS":
                    ur["status"], ur["reason"] = "UNDECIDED", "%s: %s" % (h, c["reason"])
            # known-finding harnesses: isolated failing input classes; must fail exactly as listed
            for kf in u.get("known_findings", []):
                hn = pretty(u, kf["harness"])
                c = classify(js, out, hn)
                c["role"] = "known-finding"
                ur["harnesses"][hn] = c
                listed = next((k for k in known.get("known", []) if k["unit"] == u["id"] and k["harness"] == kf["harness"]), None)
                if c["status"] == "FAIL":
                    descs = [f["description"] or "" for f in c["failed"] if f in c["failed"]]
                    real = [x for x in descs if "unwinding" not in x]
                    if listed and all(any(e in x for e in listed["expect"]) for x in real):
                        ur.setdefault("known_seen", []).append(listed)
                    else:
                        ur["status"], ur["reason"] = "FAIL", "%s: %s (not a listed finding)" % (kf["harness"], c["reason"])
                elif c["status"] == "PASS":
                    # defect gone (fixed or changed): nothing to report
                    ur.setdefault("notes", []).append("known-finding harness %s now passes" % kf["harness"])
                else:
                    if ur["status"] == "PASS":
                        ur["status"], ur["reason"] = "UNDECIDED", "%s: %s" % (kf["harness"], c["reason"])
            if compile_err and ur["status"] != "FAIL":
                ur["status"] = "UNDECIDED"
            results[u["id"]] = ur
        # replay for failures
        for u in us:
            ur = results[u["id"]]
            if ur["status"] != "FAIL":
                continue
            bad = [(hn, c) for hn, c in ur["harnesses"].items() if c["status"] == "FAIL"
                   and not (c["role"] == "known-finding" and ur.get("known_seen"))]
            if not bad:
                bad = [(hn, c) for hn, c in ur["harnesses"].items() if c["status"] == "FAIL"]
            hn, c = bad[0]
            vals, why = (None, "playback skipped (VERIF_NO_PLAYBACK)") if os.environ.get("VERIF_NO_PLAYBACK") else playback_values(d, hn, 300 if tier == "quick" else 1800)
            rep = {"property": prop, "unit": u["id"], "harness": hn, "failed": c["failed"][:5],
                   "values": vals, "values_note": why, "verifier": "kani 0.68.0 / cbmc 6.11",
                   "verifier_output": terse_tail(out, hn), "functions": u.get("functions", []),
                   "contract": u.get("contract", "")}
            if vals:
                res, tail = native_replay(u, hn, vals, tag="r" + re.sub(r"\W", "", u["id"]))
                rep["native_replay"] = {"result": res, "output_tail": tail[-3000:]}
            else:
                rep["native_replay"] = {"result": "no-values", "output_tail": why}
            rdir = os.path.join(VERIF, "replays", prop)
            os.makedirs(rdir, exist_ok=True)
            rpath = os.path.join(rdir, u["id"] + ".json")
            json.dump(rep, open(rpath, "w"), indent=1)
            ur["replay"] = rpath
            ur["replay_result"] = rep["native_replay"]["result"]
        if not keep:
            shutil.rmtree(d, ignore_errors=True)
    for u in [x for x in sel if x.get("backend") == "pin"]:
        # trusted (unverifiable) code: inline asm / SIMD intrinsics. Nothing is proved about it; its text is pinned so that a
        # change to it is reported as UNDECIDED (the assumed contract must be re-validated by hand) - never as a violation.
        pins = json.load(open(os.path.join(VERIF, "trusted_spans.json")))
        ur = {"status": "PASS", "reason": "", "harnesses": {}}
        for f in u.get("functions", []):
            path = os.path.join(inject.REPO, f[0])
            span = inject.fn_span(path, f[1], f[2] if len(f) > 2 else None) if os.path.exists(path) else None
            key = f[0] + "::" + f[1]
            if span is None:
                ur = {"status": "UNDECIDED", "reason": "lost anchor: trusted fn %s" % key, "harnesses": {}}
                break
            if inject.sha256(span) != pins.get(key):
                ur = {"status": "UNDECIDED", "reason": "trusted (unverifiable: inline asm / SIMD) code changed: %s - its assumed contract (%s) must be re-validated by hand" % (key, u.get("contract", "")[:120]), "harnesses": {}}
                break
        results[u["id"]] = ur
    for u in verus_units:
        try:
            d = new_scratch("v" + re.sub(r"\W", "", u["id"]))
            ur = run_verus_unit(u, d, timeout_s)
        except (FileNotFoundError, KeyError) as e:
            ur = {"status": "UNDECIDED", "reason": "lost anchor: %s" % e, "harnesses": {}}
        if ur["status"] == "FAIL":
            rdir = os.path.join(VERIF, "replays", prop)
            os.makedirs(rdir, exist_ok=True)
            rpath = os.path.join(rdir, u["id"] + ".json")
            json.dump({"property": prop, "unit": u["id"], "harness": "verus:" + u["id"], "failed": ur.get("failed", []),
                       "values": None, "verifier": "verus 0.2026.09.13 / z3", "verifier_output": ur.get("output", "")[-6000:],
                       "functions": u.get("functions", []), "native_replay": {"result": "no-values"}}, open(rpath, "w"), indent=1)
            ur["replay"] = rpath
            ur["replay_result"] = "no-values"
        results[u["id"]] = ur
        if not keep:
            shutil.rmtree(d, ignore_errors=True)
    return results, inj_log, time.time() - t_start


def report(prop, tier, sel, results, inj_log, wall, write_evidence=True):
    rc = 0
    viol = 0
    lines = []
    obligations = discharged = 0
    bounded, undecided, functions, stubs, samples, kf_seen = [], [], [], set(), [], []
    solver_s = 0.0
    per_unit = []
    backends = set()
    for u in sel:
        ur = results.get(u["id"], {"status": "UNDECIDED", "reason": "not run", "harnesses": {}})
        st = ur["status"]
        backends.add(u.get("backend", "kani"))
        n_checks = sum(c["checks"] for c in ur["harnesses"].values() if c.get("role") == "obligation")
        n_ok = sum(c["passed"] + c["unreachable"] for c in ur["harnesses"].values() if c.get("role") == "obligation"
                   and c["status"] == "PASS")
        t = sum(c.get("time_s", 0) for c in ur["harnesses"].values())
        solver_s += t
        per_unit.append({"unit": u["id"], "status": st, "kind": u["kind"], "bound": u.get("bound", ""),
                         "backend": u.get("backend", "kani") + ("" if u.get("backend") == "verus" else "/cbmc"),
                         "harnesses": len([1 for c in ur["harnesses"].values() if c.get("role") == "obligation"]),
                         "canaries": len([1 for c in ur["harnesses"].values() if c.get("role") == "canary"]),
                         "checks": n_checks, "time_s": round(t, 1), "contract": u.get("contract", ""),
                         "reason": ur.get("reason", "")})
        for f in u.get("functions", []):
            functions.append(f)
        for s in u.get("stubs", []) + u.get("contract_stubs", []):
            stubs.add(s)
        for k in ur.get("known_seen", []):
            kf_seen.append(k)
            lines.append("KNOWN-FINDING: property=%s %s %s" % (prop, u["id"], k["text"]))
        if st == "PASS":
            if u["kind"] == "complete":
                obligations += n_checks
                discharged += n_ok if n_ok <= n_checks else n_checks
            elif u["kind"] == "assumed":
                pass
            else:
                bounded.append({"unit": u["id"], "bound": u.get("bound", ""), "checks": n_checks})
            for c in ur["harnesses"].values():
                if c.get("role") == "obligation":
                    samples += c.get("samples", [])[:1]
            lines.append("PASS unit=%s kind=%s checks=%d time=%.1fs" % (u["id"], u["kind"], n_checks, t))
            stale = os.path.join(VERIF, "replays", prop, u["id"] + ".json")
            if os.path.exists(stale):
                os.remove(stale)
        elif st == "FAIL":
            viol += 1
            rr = ur.get("replay_result", "no-values")
            suffix = "" if rr == "reproduced" else " no-failing-input-found"
            lines.append("FAIL unit=%s reason=%s native_replay=%s" % (u["id"], ur["reason"], rr))
            lines.append("VIOLATION property=%s replay=%s unit=%s obligation=\"%s\"%s" % (
                prop, ur.get("replay", ""), u["id"], ur["reason"].replace('"', "'")[:160], suffix))
            rc = 1
        else:
            undecided.append({"unit": u["id"], "reason": ur.get("reason", "")})
            lines.append("UNDECIDED unit=%s reason=%s" % (u["id"], ur.get("reason", "")))
            if rc == 0:
                rc = 2
    for l in lines:
        print(l)
    for u in sel:
        ur = results.get(u["id"], {"harnesses": {}})
        for hn, c in ur["harnesses"].items():
            print("  H %-72s %-9s %6.1fs checks=%d %s" % (hn, c["status"], c.get("time_s", 0), c.get("checks", 0), (c.get("reason") or "")[:90]))
    funcs_hashed = []
    seen = set()
    for f in functions:
        key = tuple(f)
        if key in seen:
            continue
        seen.add(key)
        path = os.path.join(inject.REPO, f[0])
        span = inject.fn_span(path, f[1], f[2] if len(f) > 2 else None) if os.path.exists(path) else None
        funcs_hashed.append({"file": f[0], "fn": (f[2] + "::" if len(f) > 2 and f[2] else "") + f[1],
                             "sha256": inject.sha256(span)[:16] if span else "anchor-missing"})
    assumptions = sorted(set(sum([u.get("assumptions", []) for u in sel], []))) + units_mod.GLOBAL_ASSUMPTIONS + \
        units_mod.PROPERTY_ASSUMPTIONS.get(prop, [])
    ev = {
        "property_id": prop, "tier": tier, "seed": int(os.environ.get("VERIF_SEED", "0") or 0), "level": "proof",
        "coverage": {
            "obligations": obligations, "discharged": discharged,
            "checker_cmd": "python3 vcheck.py --property %s --tier %s  (cargo kani -Z stubbing -Z function-contracts per injected harness; verus <extracted>.rs)" % (prop, tier),
            "trusted_base": sorted(stubs) + units_mod.TRUSTED_BASE,
            "explanation": "obligations/discharged count CBMC properties (assertions, overflow, bounds, pointer, unwinding checks) and Verus items of complete/unbounded units only; bounded units are listed in bounded_units and never counted as proved",
            "units": per_unit, "bounded_units": bounded, "undecided_units": undecided,
            "functions_under_contract": funcs_hashed, "backends": sorted(backends),
            "solver_s": round(solver_s, 1), "known_findings_seen": kf_seen,
            "injection": inj_log[:40], "samples": samples[:8] or [{"note": "no assertion samples collected"}],
            "exhaustive": False,
        },
        "assumptions": assumptions, "wall_s": round(wall, 1), "violations": viol,
    }
    if obligations == 0:
        # every unit of this property is a bounded stand-in: nothing is claimed as proved; report as bounded model checking
        nb = sum(b["checks"] for b in bounded)
        ev["level"] = "model_checking"
        ev["coverage"].update({
            "evaluations": nb,
            "distinct_nontrivial": sum(x["harnesses"] for x in per_unit if x["status"] == "PASS" and x["kind"] == "bounded"),
            "rule": "one evaluation = one CBMC property (assertion / overflow / bounds / pointer / unwinding check) decided by bounded model checking inside the stated bounds; distinct_nontrivial = number of passed harnesses (each is a different case split of the bounded unit, with its reachability covers satisfied)",
        })
    if write_evidence:
        os.makedirs(os.path.join(VERIF, "evidence"), exist_ok=True)
        json.dump(ev, open(os.path.join(VERIF, "evidence", prop + ".json"), "w"), indent=1)
    print("SUMMARY property=%s tier=%s units=%d obligations=%d discharged=%d bounded_units=%d undecided=%d violations=%d wall=%.0fs" % (
        prop, tier, len(sel), obligations, discharged, len(bounded), len(undecided), viol, wall))
    return rc


def main():
    ap = argparse.ArgumentParser()
    ap.add_argument("--property")
    ap.add_argument("--tier", default=os.environ.get("VERIF_TIER", "quick"))
    ap.add_argument("--unit", action="append")
    ap.add_argument("--replay")
    ap.add_argument("--list", action="store_true")
    ap.add_argument("--keep", action="store_true")
    ap.add_argument("--jobs", type=int)
    ap.add_argument("--compile", action="store_true", help="only compile the harnesses of the selected units (kani --only-codegen) and show rustc errors")
    a = ap.parse_args()
    global KEEP
    KEEP = a.keep
    if a.list:
        for u in units_mod.UNITS:
            print(u["id"], ",".join(u["props"]), u["kind"], u.get("tier", "quick"), u.get("backend", "kani"), len(u.get("harnesses", [])))
        return 0
    if a.replay:
        try:
            return do_replay_file(a.replay)
        finally:
            cleanup()
    try:
        if a.unit and a.compile:
            sel = [units_mod.by_id()[x] for x in a.unit]
            d, _ = prepare(sel, "c")
            feat = sel[0].get("features")
            p = subprocess.run(["cargo", "kani", "-Z", "stubbing", "-Z", "function-contracts", "--only-codegen"] +
                               (["--no-default-features", "--features", feat] if feat else []), cwd=d, env=ENV,
                               stdout=subprocess.PIPE, stderr=subprocess.STDOUT, text=True)
            errs = re.findall(r"^error.*?(?=^\S|\Z)", p.stdout, re.S | re.M)
            print("\n".join(e[:1500] for e in errs[:12]) if errs else "compiles OK")
            return 0 if not errs else 2
        if a.unit:
            sel = [units_mod.by_id()[x] for x in a.unit]
            prop = a.property or sel[0]["props"][0]
            results, lg, wall = run_units(sel, a.tier, prop, keep=a.keep, jobs=a.jobs)
            rc = report(prop, a.tier, sel, results, lg, wall, write_evidence=False)
            return rc
        prop = a.property
        sel = [u for u in units_mod.UNITS if prop in u["props"] and (a.tier == "thorough" or u.get("tier", "quick") == "quick")]
        if not sel:
            print("no units for property %s" % prop)
            return 2
        results, lg, wall = run_units(sel, a.tier, prop, keep=a.keep, jobs=a.jobs)
        return report(prop, a.tier, sel, results, lg, wall)
    finally:
        cleanup()


if __name__ == "__main__":
    sys.exit(main())
