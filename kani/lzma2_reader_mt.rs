    // ===== src/lzma2_reader_mt.rs : coordinator (sequential part) =====

    static mut SPAWNED: u32 = 0;
    static mut SENT: u32 = 0;
    static mut SENT_LEN: usize = 0;
    static mut SENT_FIRST: u8 = 0;
    static mut SENT_LAST: u8 = 0;
    /// thread::spawn is outside Kani: ghost counter only (required: reachable thread::spawn makes Kani abort)
    fn spawn_stub<R: Read>(_s: &mut LZMA2ReaderMT<R>) { unsafe { SPAWNED += 1; } }
    /// send_work_unit by contract (its own body: C08.send): the current unit is handed to the queue with the next
    /// sequence number and a fresh unit is started; here the unit's shape is recorded.
    fn send_stub<R: Read>(s: &mut LZMA2ReaderMT<R>) {
        if s.current_work_unit.is_empty() { return; }
        unsafe {
            SENT += 1;
            SENT_LEN = s.current_work_unit.len();
            SENT_FIRST = s.current_work_unit[0];
            SENT_LAST = s.current_work_unit[SENT_LEN - 1];
        }
        s.current_work_unit.clear();
        s.next_sequence_to_dispatch += 1;
    }
    fn fmt_stub(_a: core::fmt::Arguments<'_>) -> String { String::new() }

    /// C08.cut / C18.count: one step of the work-unit cutter on an arbitrary chunk header, with an empty or a non-empty
    /// pending unit: a unit is cut (terminated with 0x00 and sent) exactly before a chunk that resets the dictionary
    /// (control >= 0xE0 or == 0x01) and at the end marker; every unit therefore starts at an independent chunk; the chunk
    /// (control, header, data of the size its header declares) is appended unchanged; reserved control bytes are an error.
    /// (`new` itself - one worker spawned, clamp of the worker count - is C10.bound.)
    #[kani::proof]
    #[kani::unwind(6)]
    #[kani::stub(LZMA2ReaderMT::spawn_worker_thread, spawn_stub)]
    #[kani::stub(LZMA2ReaderMT::send_work_unit, send_stub)]
    #[kani::stub(alloc::fmt::format, fmt_stub)]
    fn c08_mt_cut_step() { mt_cut_step(0, 255); }
    #[kani::proof]
    #[kani::unwind(6)]
    #[kani::stub(LZMA2ReaderMT::spawn_worker_thread, spawn_stub)]
    #[kani::stub(LZMA2ReaderMT::send_work_unit, send_stub)]
    #[kani::stub(alloc::fmt::format, fmt_stub)]
    fn c08_mt_cut_step_reset() { mt_cut_step(0xE0, 0xFF); }
    #[kani::proof]
    #[kani::unwind(6)]
    #[kani::stub(LZMA2ReaderMT::spawn_worker_thread, spawn_stub)]
    #[kani::stub(LZMA2ReaderMT::send_work_unit, send_stub)]
    #[kani::stub(alloc::fmt::format, fmt_stub)]
    fn c08_mt_cut_step_dependent() { mt_cut_step(0xC0, 0xDF); }
    #[kani::proof]
    #[kani::unwind(6)]
    #[kani::stub(LZMA2ReaderMT::spawn_worker_thread, spawn_stub)]
    #[kani::stub(LZMA2ReaderMT::send_work_unit, send_stub)]
    #[kani::stub(alloc::fmt::format, fmt_stub)]
    fn c08_mt_cut_step_low() { mt_cut_step(0, 2); }
    fn mt_cut_step(lo: u8, hi: u8) {
        let h: [u8; 10] = vk::any();
        vk::assume(h[0] >= lo && h[0] <= hi);
        let pending: bool = vk::any();
        // keep the declared data size small (0..=3 -> 1..=4 bytes); the size arithmetic itself is unrestricted below
        let c = h[0];
        vk::assume(!(c >= 0x03 && c < 0x80));     // reserved control bytes: c08_mt_cut_reserved
        if c >= 0x80 { vk::assume(h[3] == 0 && h[4] <= 3); } else { vk::assume(h[1] == 0 && h[2] <= 3); }
        unsafe { SPAWNED = 0; SENT = 0; SENT_LEN = 0; }
        // scaffolding: only the fields the cutter touches are initialised (channels, maps, thread handles are never
        // reached from read_and_dispatch_chunk with send_work_unit stubbed); the object is forgotten, never dropped
        let mut r = unsafe {
            let mut m = core::mem::MaybeUninit::<LZMA2ReaderMT<vk::Src<10>>>::zeroed();
            let p = m.as_mut_ptr();
            core::ptr::addr_of_mut!((*p).inner).write(vk::Src::<10>::new(h, 10));
            core::ptr::addr_of_mut!((*p).current_work_unit).write(Vec::new());
            core::mem::ManuallyDrop::new(m.assume_init())
        };
        if pending { r.current_work_unit.push(0xE0); r.current_work_unit.push(0x55); }
        let before = r.current_work_unit.len();
        let res = r.read_and_dispatch_chunk();
        let independent = c >= 0xE0 || c == 0x01;
        let sent = unsafe { SENT };
        if c == 0 {
            assert!(matches!(res, Ok(false)));
            assert!(sent == 1 && unsafe { SENT_LAST } == 0 && unsafe { SENT_LEN } == before + 1);
            assert!(r.current_work_unit.is_empty() && r.inner.pos == 1);
        } else if c >= 0x03 && c < 0x80 {
            assert!(res.is_err());
        } else {
            assert!(matches!(res, Ok(true)));
            let cut = independent && pending;
            assert!(sent == if cut { 1 } else { 0 });
            if cut {
                assert!(unsafe { SENT_LAST } == 0 && unsafe { SENT_LEN } == before + 1 && unsafe { SENT_FIRST } == 0xE0);
            }
            let hdr = if c >= 0xC0 { 6 } else if c >= 0x80 { 5 } else { 3 };
            let data = if c >= 0x80 { h[4] as usize + 1 } else { h[2] as usize + 1 };
            let start = if cut { 0 } else { before };
            assert!(r.current_work_unit.len() == start + hdr + data);
            assert!(r.inner.pos == hdr + data);
            let n = hdr + data;
            let u = &r.current_work_unit;
            assert!(u[start] == h[0] && u[start + 1] == h[1] && u[start + 2] == h[2] && u[start + 3] == h[3]);
            if n > 4 { assert!(u[start + 4] == h[4]); }
            if n > 5 { assert!(u[start + 5] == h[5]); }
            if n > 6 { assert!(u[start + 6] == h[6]); }
            if n > 7 { assert!(u[start + 7] == h[7]); }
            if n > 8 { assert!(u[start + 8] == h[8]); }
            if n > 9 { assert!(u[start + 9] == h[9]); }
            if cut || !pending { assert!(r.current_work_unit[0] == c); }
        }
        if lo <= 0xE0 && hi >= 0xE0 { crate::vcover!(c == 0xE0 && pending); }
        if lo <= 2 && hi >= 2 { crate::vcover!(c == 2 && pending); }
    }

    // ---------------------------------------------------------------- C10.bound / C10.drop (see kani/enc/lzma2_writer_mt.rs)
    fn notify_stub(_c: &std::sync::Condvar) {}
    #[kani::proof]
    #[kani::unwind(4)]
    #[kani::stub(LZMA2ReaderMT::spawn_worker_thread, spawn_stub)]
    #[kani::stub(std::sync::Condvar::notify_one, notify_stub)]
    #[kani::stub(std::sync::Condvar::notify_all, notify_stub)]
    #[kani::stub(alloc::sync::Arc::drop_slow, vk::arc_leak_stub)]
    fn c10_new_drop_r_lzma2() {
        unsafe { SPAWNED = 0; }
        let n: u32 = vk::any();
        let dict: u32 = vk::any();
        let r = LZMA2ReaderMT::new(vk::Src::<10>::new([0u8; 10], 10), dict, None, n);
        assert!(r.max_workers == if n < 1 { 1 } else if n > 256 { 256 } else { n });
        assert!(unsafe { SPAWNED } == 1, "exactly one worker is started by the constructor");
        assert!(r.dict_size == dict && r.preset_dict.is_none());
        assert!(r.next_sequence_to_dispatch == 0 && r.next_sequence_to_return == 0 && r.chunk_count() == 0 && r.current_work_unit.is_empty());
        let h = r.work_queue.worker();
        let flag = Arc::clone(&r.shutdown_flag);
        assert!(!flag.load(Ordering::Acquire) && !h.is_closed_and_empty());
        let already: bool = vk::any();
        flag.store(already, Ordering::Release);
        drop(r);
        assert!(flag.load(Ordering::Acquire), "shutdown flag not set by drop");
        assert!(h.is_closed_and_empty(), "work queue left open by drop: idle workers sleep forever");
        assert!(h.steal().is_none());
    }

    // ---------------------------------------------------------------- C12.mt.read: read() over the sequence of decoded units
    pub(crate) static mut NEXT_CALLS: u32 = 0;
    /// get_next_uncompressed_chunk by contract (own body: reassembly, C08.order): hands out the decoded units in order,
    /// then None. Script: unit 0 = [0x61, 0x62], unit 1 = EMPTY (an empty member / unit in the middle), unit 2 = [0x63].
    pub(crate) fn next_chunk_script<R: Read>(_s: &mut LZMA2ReaderMT<R>) -> io::Result<Option<Vec<u8>>> {
        unsafe {
            NEXT_CALLS += 1;
            let mut v = Vec::new();
            match NEXT_CALLS {
                1 => { v.push(0x61); v.push(0x62); Ok(Some(v)) }
                2 => Ok(Some(v)),
                3 => { v.push(0x63); Ok(Some(v)) }
                _ => Ok(None),
            }
        }
    }
    /// read() returns the bytes of the units in order; Ok(0) - which callers take for end of data - is returned only
    /// after the unit sequence is exhausted, never for an empty unit in the middle; a zero-length read changes nothing.
    #[kani::proof]
    #[kani::unwind(6)]
    #[kani::stub(LZMA2ReaderMT::spawn_worker_thread, spawn_stub)]
    #[kani::stub(LZMA2ReaderMT::get_next_uncompressed_chunk, next_chunk_script)]
    #[kani::stub(alloc::sync::Arc::drop_slow, vk::arc_leak_stub)]
    fn c12_mt_read_lzma2_empty_unit_in_the_middle() {
        unsafe { NEXT_CALLS = 0; SPAWNED = 0; }
        let mut r = core::mem::ManuallyDrop::new(LZMA2ReaderMT::new(vk::Src::<10>::new([0u8; 10], 10), 4096, None, 2));
        let mut out = [0u8; 8];
        let mut got = 0usize;
        assert!(matches!(r.read(&mut out[..0]), Ok(0)) && unsafe { NEXT_CALLS } == 0);
        let mut rounds = 0;
        while rounds < 4 {
            match r.read(&mut out[got..got + 2]) {
                Ok(0) => { assert!(unsafe { NEXT_CALLS } == 4, "end of data reported before the unit sequence was exhausted"); break; }
                Ok(n) => { got += n; }
                Err(_) => { assert!(false); }
            }
            rounds += 1;
        }
        assert!(got == 3 && out[0] == 0x61 && out[1] == 0x62 && out[2] == 0x63);
        assert!(matches!(r.read(&mut out[..2]), Ok(0)));
    }
