    // ===== src/state.rs =====

    /// C01.sym: the 12-state machine equals the LZMA specification tables (kLiteralNextStates, kMatchNextStates,
    /// kRepNextStates, kShortRepNextStates) for every state; is_literal <=> state < 7; reset/new = state 0.
    #[kani::proof]
    #[kani::unwind(2)]
    fn c01_state_tables() {
        const LIT: [u8; 12] = [0, 0, 0, 0, 1, 2, 3, 4, 5, 6, 4, 5];
        const MAT: [u8; 12] = [7, 7, 7, 7, 7, 7, 7, 10, 10, 10, 10, 10];
        const REP: [u8; 12] = [8, 8, 8, 8, 8, 8, 8, 11, 11, 11, 11, 11];
        const SRP: [u8; 12] = [9, 9, 9, 9, 9, 9, 9, 11, 11, 11, 11, 11];
        let s: u8 = vk::any();
        vk::assume((s as usize) < STATES);
        let mut a = State::from(s);
        assert!(a.get() == s && a.is_literal() == (s < 7));
        a.update_literal();
        assert!(a.get() == LIT[s as usize]);
        let mut b = State::from(s);
        b.update_match();
        assert!(b.get() == MAT[s as usize]);
        let mut c = State::from(s);
        c.update_long_rep();
        assert!(c.get() == REP[s as usize]);
        let mut d = State::from(s);
        d.update_short_rep();
        assert!(d.get() == SRP[s as usize]);
        let mut e = State::from(s);
        e.reset();
        assert!(e.get() == 0 && State::new().get() == 0);
        let mut f = State::new();
        f.set(State::from(s));
        assert!(f.get() == s);
    }
