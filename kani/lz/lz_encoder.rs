    // ===== src/lz/lz_encoder.rs =====

    /// C17.enc: window buffer size = specification, without overflow for every dictionary up to 1 GiB;
    /// LZEncoder::get_memory_usage (KiB) covers buffer + match finder tables and is within 1/8 + 64 KiB of them.
    #[kani::proof]
    #[kani::unwind(2)]
    fn c17_lz_encoder_memory() {
        let d: u32 = vk::any();
        let eb: u32 = vk::any();
        let ea: u32 = vk::any();
        vk::assume(d >= 4096 && d <= 1 << 30 && eb <= 1 << 16 && ea <= 1 << 13);
        let b = get_buf_size(d, eb, ea, 273);
        assert!(b as u64 == vk::spec_buf_size(d, eb, ea, 273));
        let hc: bool = vk::any();
        let mf = if hc { MFType::HC4 } else { MFType::BT4 };
        let kib = LZEncoder::get_memory_usage(d, eb, ea, 273, mf) as u64;
        let tables = 4 * ((1u64 << 10) + (1u64 << 16) + vk::spec_hash4_size(d) as u64)
            + if hc { 4 * (d as u64 + 1) } else { 8 * (d as u64 + 1) };
        let bytes = b as u64 + tables;
        assert!(kib * 1024 >= bytes);
        assert!(kib * 1024 <= bytes + bytes / 8 + 64 * 1024);
    }

    /// C14.norm / C13.norm (D5): position renormalisation. The SIMD variants (AVX2/SSE4.1/NEON, outside the verifier) are
    /// documented to compute max(p, off) - off; the scalar code - used for the unaligned prefix/suffix of the SIMD paths,
    /// for every element on other targets and in no_std builds - must compute the same for every element, so that the
    /// result does not depend on CPU features or on how the allocation happens to be aligned.
    #[kani::proof]
    #[kani::unwind(18)]
    fn c14_normalize_scalar() {
        let mut p: [i32; 4] = vk::any();
        let off: i32 = vk::any();
        vk::assume(off >= 0);
        let before = p;
        normalize_scalar(&mut p, off);
        let mut i = 0;
        while i < 4 {
            let want = if before[i] > off { before[i] - off } else { 0 };
            assert!(p[i] == want, "scalar renormalisation differs from the clamp-at-zero semantics of the SIMD paths");
            i += 1;
        }
        // splitting the slice (as align_to_mut may) does not matter
        let mut q = before;
        normalize_scalar(&mut q[..1], off);
        normalize_scalar(&mut q[1..], off);
        assert!(q == p);
    }
