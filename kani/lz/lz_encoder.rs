    // ===== src/lz/lz_encoder.rs =====

    /// C17.enc: window buffer size = specification, without overflow for every dictionary up to 1 GiB;
    /// LZEncoder::get_memory_usage (KiB) covers buffer + match finder tables and is within 1/8 + 64 KiB of them.
    #[kani::proof]
    #[kani::unwind(2)]
    fn c17_lz_encoder_memory() {
        let d: u32 = vk::any();
        let eb: u32 = vk::any();
        let ea: u32 = vk::any();
        vk::assume(d >= 4096 && d <= 1 << 30 && eb <= 1 << 16 && ea <= 1 << 13);
        let b = get_buf_size(d, eb, ea, 273);
        assert!(b as u64 == vk::spec_buf_size(d, eb, ea, 273));
        let hc: bool = vk::any();
        let mf = if hc { MFType::HC4 } else { MFType::BT4 };
        let kib = LZEncoder::get_memory_usage(d, eb, ea, 273, mf) as u64;
        let tables = 4 * ((1u64 << 10) + (1u64 << 16) + vk::spec_hash4_size(d) as u64)
            + if hc { 4 * (d as u64 + 1) } else { 8 * (d as u64 + 1) };
        let bytes = b as u64 + tables;
        assert!(kib * 1024 >= bytes);
        assert!(kib * 1024 <= bytes + bytes / 8 + 64 * 1024);
    }

    /// C14.norm / C13.norm (D5): position renormalisation. The SIMD variants (AVX2/SSE4.1/NEON, outside the verifier) are
    /// documented to compute max(p, off) - off; the scalar code - used for the unaligned prefix/suffix of the SIMD paths,
    /// for every element on other targets and in no_std builds - must compute the same for every element, so that the
    /// result does not depend on CPU features or on how the allocation happens to be aligned.
    #[kani::proof]
    #[kani::unwind(18)]
    fn c14_normalize_scalar() {
        let mut p: [i32; 4] = vk::any();
        let off: i32 = vk::any();
        vk::assume(off >= 0);
        let before = p;
        normalize_scalar(&mut p, off);
        let mut i = 0;
        while i < 4 {
            let want = if before[i] > off { before[i] - off } else { 0 };
            assert!(p[i] == want, "scalar renormalisation differs from the clamp-at-zero semantics of the SIMD paths");
            i += 1;
        }
        // splitting the slice (as align_to_mut may) does not matter
        let mut q = before;
        normalize_scalar(&mut q[..1], off);
        normalize_scalar(&mut q[1..], off);
        assert!(q == p);
    }

    /// C13.gate / C01.lze.keep / C17.sites: LZEncoder::new: the window bookkeeping the encoder's decisions rest on:
    /// keep_size_before = extra_before + dict (history that must stay addressable), keep_size_after = extra_after +
    /// match_len_max (look-ahead that must be present before a position may be consumed - this is what makes the
    /// encoder's choices independent of how the caller split its writes), buffer = get_buf_size(..) bytes, empty window.
    #[kani::proof]
    #[kani::unwind(4)]
    fn c13_lz_encoder_new() {
        let eb: u32 = vk::any();
        let ea: u32 = vk::any();
        let nice: u32 = vk::any();
        let hc: bool = vk::any();
        vk::assume(eb <= 4096 && ea <= 4096 && nice >= 8 && nice <= 273);
        let dict: u32 = 4096;
        let e = core::mem::ManuallyDrop::new(if hc { LZEncoder::new_hc4(dict, eb, ea, nice, 273, 0) } else { LZEncoder::new_bt4(dict, eb, ea, nice, 273, 0) });
        assert!(e.data.keep_size_before == eb + dict);
        assert!(e.data.keep_size_after == ea + 273);
        assert!(e.data.buf_size as u64 == vk::spec_buf_size(dict, eb, ea, 273) && e.data.buf.len() == e.data.buf_size);
        assert!(e.data.buf_limit_u16 + 2 == e.data.buf_size);
        assert!(e.data.match_len_max == 273 && e.data.nice_len == nice);
        assert!(e.data.read_pos == -1 && e.data.read_limit == -1 && e.data.write_pos == 0 && e.data.pending_size == 0 && !e.data.finishing);
        assert!(!e.data.is_started());
        assert!(e.matches.count == 0 && e.matches.len.len() == nice as usize - 1 && e.matches.dist.len() == nice as usize - 1);
    }

    // ---------------------------------------------------------------- C01.lze.pending: window <-> match finder position sync
    /// MatchFind by contract (what HC4::skip / BT4::skip do with the window; their side is C01.mf.skip): `skip(n)` advances
    /// the window n times with move_pos(4, 4) and inserts the position into its tables iff move_pos reports data available.
    /// Ghost `next` = the next window position the finder expects to insert: a position inserted twice or left out is a
    /// failed obligation (the finder's lz_pos / cyclic_pos would no longer describe the window: false matches).
    pub(crate) struct MfGhost { pub(crate) next: i32 }
    impl MatchFind for MfGhost {
        fn find_matches(&mut self, _e: &mut LZEncoderData, _m: &mut Matches) { assert!(false, "not used"); }
        fn skip(&mut self, e: &mut LZEncoderData, mut len: usize) {
            while len > 0 {
                len -= 1;
                if e.move_pos(4, 4) != 0 {
                    assert!(e.read_pos == self.next, "match finder out of step with the window: position inserted twice or skipped");
                    self.next += 1;
                }
            }
        }
    }
    pub(crate) fn mk_lz_data(buf_size: usize, ksa: u32) -> LZEncoderData {
        LZEncoderData { keep_size_before: 16, keep_size_after: ksa, match_len_max: 8, nice_len: 8, buf: alloc::vec![0u8; buf_size], buf_size,
            buf_limit_u16: buf_size - 2, read_pos: -1, read_limit: -1, finishing: false, write_pos: 0, pending_size: 0 }
    }
    /// any window state in which the finder is in step: positions 0..=read_pos-pending are inserted, the last `pending`
    /// positions wait for more look-ahead
    fn any_synced(buf_size: usize, ksa: u32) -> (LZEncoderData, MfGhost) {
        let mut e = mk_lz_data(buf_size, ksa);
        let wp: i32 = vk::any();
        let rp: i32 = vk::any();
        let pend: u32 = vk::any();
        vk::assume(wp >= 0 && wp <= buf_size as i32);
        vk::assume(rp >= -1 && rp < wp || (rp == -1 && wp == 0));
        vk::assume(pend <= 6 && pend as i32 <= rp + 1);
        e.write_pos = wp;
        e.read_pos = rp;
        e.pending_size = pend;
        e.read_limit = vk::any();
        vk::assume(e.read_limit >= -1 && e.read_limit < wp.max(0));
        let mf = MfGhost { next: rp + 1 - pend as i32 };
        (e, mf)
    }
    fn pending_spec(rp: i32, wp: i32, old: u32) -> u32 {
        // positions in (rp-old, rp] that still have fewer than 4 bytes of look-ahead
        let first = core::cmp::max(rp - old as i32, wp - 4);
        if rp > first { (rp - first) as u32 } else { 0 }
    }
    /// set_flushing / set_finishing: read_limit = write_pos - 1; pending positions are re-offered to the finder exactly once
    /// (rewind by pending, skip(pending)); afterwards the finder is in step again, read_pos is where it was, and exactly the
    /// positions that still lack look-ahead are pending.
    #[kani::proof]
    #[kani::unwind(9)]
    fn c01_lze_pending_flush() {
        let (mut e, mut mf) = any_synced(32, 12);
        let (rp, wp, old) = (e.read_pos, e.write_pos, e.pending_size);
        let fin: bool = vk::any();
        // precondition taken from the function's own debug_assert (pending must shrink): when pending bytes are re-offered,
        // the oldest pending position has meanwhile received its 4 bytes of look-ahead (new input arrived since it was
        // skipped). Establishing this at the call sites needs the encoder-loop invariant: assumed, not proved.
        vk::assume(!(old > 0 && rp < wp - 1) || wp - (rp - old as i32 + 1) >= 4);
        if fin { e.set_finishing(&mut mf); } else { e.set_flushing(&mut mf); }
        assert!(e.read_limit == wp - 1 && e.finishing == fin && e.write_pos == wp);
        assert!(e.read_pos == rp, "read position must be restored after re-feeding pending bytes");
        assert!(mf.next == e.read_pos + 1 - e.pending_size as i32, "finder position and window position differ by other than the pending count");
        if old > 0 && rp < wp - 1 {
            // (with the finder's requirement (4, 4) the finishing flag does not release positions with < 4 bytes left)
            assert!(e.pending_size == pending_spec(rp, wp, old));
        } else {
            assert!(e.pending_size == old);
        }
        crate::vcover!(old == 3 && e.pending_size == 0);
        crate::vcover!(old == 3 && e.pending_size == 2);
    }
    /// fill_window (no window move): copies min(len, free) bytes at write_pos, read_limit follows write_pos - keep_size_after,
    /// pending positions are re-offered once; finder in step afterwards.
    #[kani::proof]
    #[kani::unwind(9)]
    fn c01_lze_fill_window_pending() {
        let (mut e, mut mf) = any_synced(32, 6);
        vk::assume(e.read_pos < 32 - 6);
        let (rp, wp, old, rl) = (e.read_pos, e.write_pos, e.pending_size, e.read_limit);
        let inp: [u8; 4] = vk::any();
        let want = if 32 - wp < 4 { (32 - wp) as usize } else { 4 };
        {
            // same precondition as in c01_lze_pending_flush (from the debug_assert in process_pending_bytes)
            let wp2 = wp + want as i32;
            let rl_new = if wp2 >= 6 { wp2 - 6 } else { rl };
            vk::assume(!(old > 0 && rp < rl_new) || wp2 - (rp - old as i32 + 1) >= 4);
        }
        let used = e.fill_window(&inp, &mut mf);
        assert!(used == want && e.write_pos == wp + want as i32);
        let mut i = 0;
        while i < want { assert!(e.buf[wp as usize + i] == inp[i]); i += 1; }
        let rl2 = if e.write_pos >= 6 { e.write_pos - 6 } else { rl };
        assert!(e.read_limit == rl2);
        assert!(e.read_pos == rp);
        assert!(mf.next == e.read_pos + 1 - e.pending_size as i32, "finder position and window position differ by other than the pending count");
        if old > 0 && rp < rl2 { assert!(e.pending_size == pending_spec(rp, e.write_pos, old)); } else { assert!(e.pending_size == old); }
        crate::vcover!(old == 2 && e.pending_size == 0);
    }

    // ---------------------------------------------------------------- C01.lze.preset: preset dictionary, encoder side
    /// set_preset_dict primes the window with the LAST min(len, dict_size) bytes of the preset dictionary - the part the
    /// decoder keeps (LZDecoder::new, C01.lzd.view) and the only part a match may refer to - and offers exactly those
    /// positions to the match finder once.
    fn lze_preset<const LEN: usize>() {
        let preset: [u8; LEN] = vk::any();
        let mut e = mk_lz_data(32, 6);
        let mut mf = MfGhost { next: 0 };
        let dict: u32 = 8;
        e.set_preset_dict(dict, &preset, &mut mf);
        let keep = if LEN < 8 { LEN } else { 8 };
        assert!(e.write_pos == keep as i32);
        let mut i = 0;
        while i < 8 { if i < keep { assert!(e.buf[i] == preset[LEN - keep + i], "encoder window does not start with the tail of the preset dictionary"); } i += 1; }
        assert!(e.read_pos == keep as i32 - 1);
        assert!(mf.next == e.read_pos + 1 - e.pending_size as i32);
    }
    #[kani::proof]
    #[kani::unwind(14)]
    fn c01_lze_preset_short() { lze_preset::<5>(); }
    #[kani::proof]
    #[kani::unwind(14)]
    fn c01_lze_preset_long() { lze_preset::<12>(); }
