    // ===== src/lz/lz_encoder.rs =====

    /// C17.enc: window buffer size = specification, without overflow for every dictionary up to 1 GiB;
    /// LZEncoder::get_memory_usage (KiB) covers buffer + match finder tables and is within 1/8 + 64 KiB of them.
    #[kani::proof]
    #[kani::unwind(2)]
    fn c17_lz_encoder_memory() {
        let d: u32 = vk::any();
        let eb: u32 = vk::any();
        let ea: u32 = vk::any();
        vk::assume(d >= 4096 && d <= 1 << 30 && eb <= 1 << 16 && ea <= 1 << 13);
        let b = get_buf_size(d, eb, ea, 273);
        assert!(b as u64 == vk::spec_buf_size(d, eb, ea, 273));
        let hc: bool = vk::any();
        let mf = if hc { MFType::HC4 } else { MFType::BT4 };
        let kib = LZEncoder::get_memory_usage(d, eb, ea, 273, mf) as u64;
        let tables = 4 * ((1u64 << 10) + (1u64 << 16) + vk::spec_hash4_size(d) as u64)
            + if hc { 4 * (d as u64 + 1) } else { 8 * (d as u64 + 1) };
        let bytes = b as u64 + tables;
        assert!(kib * 1024 >= bytes);
        assert!(kib * 1024 <= bytes + bytes / 8 + 64 * 1024);
    }
