    // ===== src/lz/lz_encoder.rs =====

    /// C17.enc: window buffer size = specification, without overflow for every dictionary up to 1 GiB;
    /// LZEncoder::get_memory_usage (KiB) covers buffer + match finder tables and is within 1/8 + 64 KiB of them.
    #[kani::proof]
    #[kani::unwind(2)]
    fn c17_lz_encoder_memory() {
        let d: u32 = vk::any();
        let eb: u32 = vk::any();
        let ea: u32 = vk::any();
        vk::assume(d >= 4096 && d <= 1 << 30 && eb <= 1 << 16 && ea <= 1 << 13);
        let b = get_buf_size(d, eb, ea, 273);
        assert!(b as u64 == vk::spec_buf_size(d, eb, ea, 273));
        let hc: bool = vk::any();
        let mf = if hc { MFType::HC4 } else { MFType::BT4 };
        let kib = LZEncoder::get_memory_usage(d, eb, ea, 273, mf) as u64;
        let tables = 4 * ((1u64 << 10) + (1u64 << 16) + vk::spec_hash4_size(d) as u64)
            + if hc { 4 * (d as u64 + 1) } else { 8 * (d as u64 + 1) };
        let bytes = b as u64 + tables;
        assert!(kib * 1024 >= bytes);
        assert!(kib * 1024 <= bytes + bytes / 8 + 64 * 1024);
    }

    /// C14.norm / C13.norm (D5): position renormalisation. The SIMD variants (AVX2/SSE4.1/NEON, outside the verifier) are
    /// documented to compute max(p, off) - off; the scalar code - used for the unaligned prefix/suffix of the SIMD paths,
    /// for every element on other targets and in no_std builds - must compute the same for every element, so that the
    /// result does not depend on CPU features or on how the allocation happens to be aligned.
    #[kani::proof]
    #[kani::unwind(18)]
    fn c14_normalize_scalar() {
        let mut p: [i32; 4] = vk::any();
        let off: i32 = vk::any();
        vk::assume(off >= 0);
        let before = p;
        normalize_scalar(&mut p, off);
        let mut i = 0;
        while i < 4 {
            let want = if before[i] > off { before[i] - off } else { 0 };
            assert!(p[i] == want, "scalar renormalisation differs from the clamp-at-zero semantics of the SIMD paths");
            i += 1;
        }
        // splitting the slice (as align_to_mut may) does not matter
        let mut q = before;
        normalize_scalar(&mut q[..1], off);
        normalize_scalar(&mut q[1..], off);
        assert!(q == p);
    }

    /// C13.gate / C01.lze.keep / C17.sites: LZEncoder::new: the window bookkeeping the encoder's decisions rest on:
    /// keep_size_before = extra_before + dict (history that must stay addressable), keep_size_after = extra_after +
    /// match_len_max (look-ahead that must be present before a position may be consumed - this is what makes the
    /// encoder's choices independent of how the caller split its writes), buffer = get_buf_size(..) bytes, empty window.
    #[kani::proof]
    #[kani::unwind(4)]
    fn c13_lz_encoder_new() {
        let eb: u32 = vk::any();
        let ea: u32 = vk::any();
        let nice: u32 = vk::any();
        let hc: bool = vk::any();
        vk::assume(eb <= 4096 && ea <= 4096 && nice >= 8 && nice <= 273);
        let dict: u32 = 4096;
        let e = core::mem::ManuallyDrop::new(if hc { LZEncoder::new_hc4(dict, eb, ea, nice, 273, 0) } else { LZEncoder::new_bt4(dict, eb, ea, nice, 273, 0) });
        assert!(e.data.keep_size_before == eb + dict);
        assert!(e.data.keep_size_after == ea + 273);
        assert!(e.data.buf_size as u64 == vk::spec_buf_size(dict, eb, ea, 273) && e.data.buf.len() == e.data.buf_size);
        assert!(e.data.buf_limit_u16 + 2 == e.data.buf_size);
        assert!(e.data.match_len_max == 273 && e.data.nice_len == nice);
        assert!(e.data.read_pos == -1 && e.data.read_limit == -1 && e.data.write_pos == 0 && e.data.pending_size == 0 && !e.data.finishing);
        assert!(!e.data.is_started());
        assert!(e.matches.count == 0 && e.matches.len.len() == nice as usize - 1 && e.matches.dist.len() == nice as usize - 1);
    }
