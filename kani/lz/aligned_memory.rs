    // ===== src/lz/aligned_memory.rs =====

    /// C15.aligned / C13.zero / C14.tables: AlignedMemoryI32::new(n) for every 1 <= n <= 48: the slice view has at least n
    /// elements, covers exactly the allocation (len*4 == layout size, multiple of 64), is 64-byte aligned, every element
    /// is zero (so the match-finder tables start from the same state on every run), writes are read back, and drop frees
    /// with the layout used for the allocation (CBMC checks the dealloc contract).
    #[kani::proof]
    #[kani::unwind(4)]
    fn c15_aligned_memory() {
        let n: usize = vk::any();
        vk::assume(n >= 1 && n <= 48);
        let mut m = AlignedMemoryI32::new(n);
        assert!(m.len() >= n && m.len() < n + 16);
        assert!(m.len() * 4 == m.layout.size() && m.layout.size() % 64 == 0 && m.layout.align() == 64);
        assert!((m.ptr.as_ptr() as usize) % 64 == 0);
        let k: usize = vk::any();
        vk::assume(k < m.len());
        assert!(m[k] == 0);
        assert!(m.as_ref().len() == m.len());
        let v: i32 = vk::any();
        m[k] = v;
        assert!(m[k] == v);
        let j: usize = vk::any();
        vk::assume(j < m.len() && j != k);
        assert!(m[j] == 0);
        drop(m);
    }
