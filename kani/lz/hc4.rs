    // ===== src/lz/hc4.rs =====

    /// C14.tables / C13.zero / C15.call: HC4::new: the cyclic window is EXACTLY dict_size + 1 positions and the finder starts
    /// at lz_pos = dict_size + 1, whatever the length of the table that backs the chain (the aligned allocation of the
    /// `optimization` build rounds its length up; a window derived from that length would let matches reach beyond the
    /// declared dictionary and make the two builds emit different streams). Table >= window, all zero.
    fn hc4_new(dict: u32) {
        let nice: u32 = vk::any();
        let depth: i32 = vk::any();
        vk::assume(nice >= 8 && nice <= 273 && depth >= 0 && depth <= 1000);
        let h = core::mem::ManuallyDrop::new(HC4::new(dict, nice, depth));
        assert!(h.cyclic_size == dict as i32 + 1, "cyclic window is not dict_size + 1");
        assert!(h.lz_pos == dict as i32 + 1 && h.cyclic_pos == -1);
        assert!(h.chain.len() >= dict as usize + 1);
        assert!(h.depth_limit == if depth > 0 { depth } else { 4 + nice as i32 / 4 });
        let i: usize = vk::any();
        vk::assume(i < h.chain.len());
        assert!(h.chain[i] == 0);
    }
    #[kani::proof]
    #[kani::unwind(3)]
    fn c14_hc4_new_4096() { hc4_new(4096); }
    #[kani::proof]
    #[kani::unwind(3)]
    fn c14_hc4_new_4100() { hc4_new(4100); }

    /// C01.mf.skip (HC4 side of the MfGhost contract used by C01.lze.pending): skip(n) on a fresh finder over a window
    /// with w bytes: the window advances n positions; a position is inserted (lz_pos, cyclic_pos advance) iff it has
    /// >= 4 bytes of look-ahead, otherwise it is counted pending; afterwards lz_pos - (dict+1) = read_pos + 1 - pending.
    #[kani::proof]
    #[kani::unwind(8)]
    fn c01_hc4_skip_sync() {
        let mut h = core::mem::ManuallyDrop::new(HC4::new(4096, 32, 0));
        let mut e = crate::lz::lz_encoder::verif_kani::mk_lz_data(32, 6);
        let w: i32 = vk::any();
        let n: usize = vk::any();
        vk::assume(w >= 0 && w <= 32 && n <= 6 && n as i32 <= w);
        e.write_pos = w;
        h.skip(&mut e, n);
        assert!(e.read_pos == n as i32 - 1);
        let inserted = h.lz_pos - 4097;
        assert!(inserted == e.read_pos + 1 - e.pending_size as i32, "finder position out of step with the window");
        assert!(h.cyclic_pos == inserted - 1);
        // pending = positions p < n with w - p < 4
        let mut pend = 0;
        let mut p = 0;
        while p < 6 { if p < n && w - (p as i32) < 4 { pend += 1; } p += 1; }
        assert!(e.pending_size == pend);
    }
