    // ===== src/lz/lz_decoder.rs : dictionary ring, view = the history H of bytes produced so far =====
    const N: usize = 6;

    /// representation invariant at every public call boundary (derived from the call sites in decoder.rs,
    /// lzma_reader.rs, lzma2_reader.rs): the ring is not full => nothing has wrapped yet.
    fn wf(d: &LZDecoder) -> bool {
        d.buf.len() == d.buf_size && d.buf_size == N
            && d.start <= d.pos && d.pos <= d.limit && d.limit <= d.buf_size
            && d.pos <= d.full && d.full <= d.buf_size
            && (d.full < d.buf_size || true)
            && (d.full == d.buf_size || d.pos == d.full)
    }
    fn any_decoder() -> LZDecoder {
        let mut d = LZDecoder::new(N, None);
        let bytes: [u8; N] = vk::any();
        let mut i = 0;
        while i < N { d.buf[i] = bytes[i]; i += 1; }
        d.start = vk::any();
        d.pos = vk::any();
        d.full = vk::any();
        d.limit = vk::any();
        vk::assume(wf(&d));
        d
    }

    /// C01.lzd.view / C04.lzma.struct / C06.lzd / C07.lzd.split: `repeat(dist,len)` from any well-formed ring state with
    /// room (pos < limit), any dist, any len <= 2N:
    ///  * dist >= full  => Err, nothing changes (a distance reaching before the start of the data is rejected),
    ///  * otherwise appends c = min(limit-pos, len) bytes, the j-th being the byte `dist+1` back in the history that
    ///    includes the bytes appended so far (overlapping copies replicate), records the rest as pending,
    ///  * the older history is still readable behind the new bytes, the invariant is preserved, no panic.
    #[kani::proof]
    #[kani::unwind(14)]
    //@ERR
    fn c01_lzd_repeat() {
        let mut d = any_decoder();
        vk::assume(d.pos < d.limit);
        let dist: usize = vk::any();
        let len: usize = vk::any();
        vk::assume(len >= 1 && len <= 2 * N);
        let full0 = d.full;
        let pos0 = d.pos;
        let limit0 = d.limit;
        let start0 = d.start;
        let mut hist = [0u8; N];
        let mut k = 0;
        while k < N { if k < full0 { hist[k] = d.get_byte(k); } k += 1; }
        let r = d.repeat(dist, len);
        if dist >= full0 {
            assert!(r.is_err());
            assert!(d.pos == pos0 && d.full == full0 && d.limit == limit0 && d.start == start0);
            let mut k = 0;
            while k < N { if k < full0 { assert!(d.get_byte(k) == hist[k]); } k += 1; }
        } else {
            assert!(r.is_ok());
            let c = if limit0 - pos0 < len { limit0 - pos0 } else { len };
            assert!(d.pos == pos0 + c);
            assert!(d.pending_len == len - c && d.pending_dist == dist);
            assert!(d.has_pending() == (len > c));
            assert!(d.limit == limit0 && d.start == start0);
            assert!(wf(&d));
            // expected new bytes: e[j] = (j <= dist) ? hist[dist - j] : e[j - dist - 1]
            let mut e = [0u8; N];
            let mut j = 0;
            while j < N {
                if j < c { e[j] = if j <= dist { hist[dist - j] } else { e[j - dist - 1] }; }
                j += 1;
            }
            let mut j = 0;
            while j < N {
                if j < c { assert!(d.get_byte(c - 1 - j) == e[j]); }
                j += 1;
            }
            // older history is behind the new bytes as far as the ring still holds it
            let mut k = 0;
            while k < N {
                if k < full0 && c + k < N { assert!(d.get_byte(c + k) == hist[k]); }
                k += 1;
            }
            assert!(d.full == if full0 > pos0 + c { full0 } else { pos0 + c });
        }
        crate::vcover!(r.is_ok() && len > limit0 - pos0);
        crate::vcover!(r.is_ok() && pos0 < dist + 1);
        crate::vcover!(r.is_ok() && dist < len && dist + 1 <= pos0);
    }

    /// C07.lzd.split: a match cut by the output limit and resumed by repeat_pending yields the same bytes as uncut.
    #[kani::proof]
    #[kani::unwind(14)]
    //@ERR
    fn c07_lzd_pending_resume() {
        let mut a = any_decoder();
        vk::assume(a.pos < a.limit && a.full == N || a.pos < a.limit);
        let mut b = LZDecoder::new(N, None);
        let mut i = 0;
        while i < N { b.buf[i] = a.buf[i]; i += 1; }
        b.start = a.start; b.pos = a.pos; b.full = a.full;
        let dist: usize = vk::any();
        let len: usize = vk::any();
        vk::assume(len >= 2 && len <= N && dist < a.full);
        let room = a.limit - a.pos;
        let cut: usize = vk::any();
        vk::assume(cut >= 1 && cut < len && cut < room && a.pos + len <= N);
        // b: limit large enough for the whole match; a: first `cut` bytes, then the limit is raised and the rest resumes
        b.limit = b.pos + len;
        a.limit = a.pos + cut;
        assert!(a.repeat(dist, len).is_ok());
        assert!(a.has_pending());
        a.limit = a.pos + (len - cut);
        assert!(a.repeat_pending().is_ok());
        assert!(!a.has_pending());
        assert!(b.repeat(dist, len).is_ok());
        assert!(a.pos == b.pos && a.full == b.full);
        let mut k = 0;
        while k < N { if k < a.pos { assert!(a.buf[k] == b.buf[k]); } k += 1; }
    }

    /// C01.lzd.view: put_byte / get_byte / flush / set_limit / reset on the view.
    #[kani::proof]
    #[kani::unwind(14)]
    //@ERR
    fn c01_lzd_put_flush() {
        let mut d = any_decoder();
        vk::assume(d.pos < d.limit);
        let full0 = d.full;
        let mut hist = [0u8; N];
        let mut k = 0;
        while k < N { if k < full0 { hist[k] = d.get_byte(k); } k += 1; }
        let b: u8 = vk::any();
        let (pos0, start0) = (d.pos, d.start);
        d.put_byte(b);
        assert!(d.get_byte(0) == b && d.pos == pos0 + 1 && wf(&d));
        let mut k = 0;
        while k < N { if k < full0 && k + 1 < N { assert!(d.get_byte(k + 1) == hist[k]); } k += 1; }
        // flush returns exactly the bytes appended since the last flush, in order
        let mut out = [0u8; 2 * N];
        let off: usize = vk::any();
        vk::assume(off <= N);
        let n = d.flush(&mut out, off);
        assert!(n == pos0 + 1 - start0);
        assert!(out[off + n - 1] == b);
        assert!(d.start == d.pos && (d.pos == pos0 + 1 || (pos0 + 1 == N && d.pos == 0)));
        // set_limit never exceeds the ring and always leaves room when asked for >= 1 byte
        let want: usize = vk::any();
        vk::assume(want >= 1 && want <= (1 << 40));
        d.set_limit(want);
        assert!(d.limit <= N && d.has_space());
        d.reset();
        assert!(d.pos == 0 && d.full == 0 && d.start == 0 && d.limit == 0);
        // empty history: the "previous byte" the literal coder asks for (get_byte(0)) reads as 0, as on the encoder side
        assert!(d.get_byte(0) == 0);
        let f = LZDecoder::new(N, None);
        assert!(f.get_byte(0) == 0 && f.pos == 0 && f.full == 0 && f.start == 0 && f.limit == 0 && !f.has_pending());
    }

    /// C05.lz.copy / C16.l2.exact: copy_uncompressed reads exactly min(len, room) bytes with read_exact semantics; a
    /// source error or EOF leaves pos/full unchanged and is returned.
    #[kani::proof]
    #[kani::unwind(14)]
    //@ERR
    fn c05_lzd_copy_uncompressed() {
        let mut d = any_decoder();
        vk::assume(d.pos < d.limit);
        let data: [u8; N] = vk::any();
        let avail: usize = vk::any();
        vk::assume(avail <= N);
        let mut src = vk::IoAny::<N>::new(data, avail);
        src.short = true;
        let len: usize = vk::any();
        vk::assume(len >= 1 && len <= N);
        let (pos0, full0) = (d.pos, d.full);
        let want = if N - pos0 < len { N - pos0 } else { len };
        let r = d.copy_uncompressed(&mut src, len);
        match r {
            Ok(()) => {
                assert!(avail >= want && src.pos == want);
                assert!(d.pos == pos0 + want);
                let mut i = 0;
                while i < N { if i < want { assert!(d.buf[pos0 + i] == data[i]); } i += 1; }
                assert!(d.full == if full0 > d.pos { full0 } else { d.pos });
            }
            Err(e) => {
                assert!(avail < want);
                assert!(vk::kind_of(&e) == vk::Kind::Eof);
                assert!(d.pos == pos0 && d.full == full0);
            }
        }
    }
