    // ===== src/lz/hash234.rs =====

    /// C17.enc: the hash-table size function equals its specification (power of two between 2^16 and 2^24... entries)
    #[kani::proof]
    #[kani::unwind(2)]
    fn c17_hash4_size_spec() {
        let d: u32 = vk::any();
        vk::assume(d >= 1);
        let h = Hash234::get_hash4_size(d);
        assert!(h == vk::spec_hash4_size(d));
        assert!(h >= 1 << 16 && h <= 1 << 31 && h & (h - 1) == 0);
        // memory estimate (KiB) covers the three tables: 4 bytes x (2^10 + 2^16 + hash4)
        let kib = Hash234::get_mem_usage(d) as u64;
        let bytes = 4 * ((1u64 << 10) + (1u64 << 16) + h as u64);
        assert!(kib * 1024 >= bytes);
        assert!(kib * 1024 <= bytes + 8 * 1024);
    }
