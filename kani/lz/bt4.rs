    // ===== src/lz/bt4.rs =====

    /// C14.tables: BT4::new: window = dict_size + 1 positions exactly, tree table >= 2 * window, zeroed (see kani/lz/hc4.rs)
    fn bt4_new(dict: u32) {
        let nice: u32 = vk::any();
        let depth: i32 = vk::any();
        vk::assume(nice >= 8 && nice <= 273 && depth >= 0 && depth <= 1000);
        let b = core::mem::ManuallyDrop::new(BT4::new(dict, nice, depth));
        assert!(b.cyclic_size == dict as i32 + 1, "cyclic window is not dict_size + 1");
        assert!(b.lz_pos == dict as i32 + 1 && b.cyclic_pos == -1);
        assert!(b.tree.len() >= 2 * (dict as usize + 1));
        assert!(b.depth_limit == if depth > 0 { depth } else { 16 + nice as i32 / 2 });
        let i: usize = vk::any();
        vk::assume(i < b.tree.len());
        assert!(b.tree[i] == 0);
    }
    #[kani::proof]
    #[kani::unwind(3)]
    fn c14_bt4_new_4096() { bt4_new(4096); }
    #[kani::proof]
    #[kani::unwind(3)]
    fn c14_bt4_new_4100() { bt4_new(4100); }
