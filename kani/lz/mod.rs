    // ===== src/lz/mod.rs : extend_match (safe and raw-pointer variants, selected by the `optimization` feature) =====

    const B: usize = 24;
    /// common contract of both cfg variants (the unit runs in the default build = raw pointers / get_unchecked and in the
    /// build without `optimization` = safe slices): extend_match returns current_len + the length of the common prefix of
    /// buf[read_pos+current_len..] and the same position `distance` bytes earlier, capped by limit - current_len; every
    /// read stays inside `buf` (CBMC pointer checks) under the precondition the call sites establish:
    /// 1 <= distance <= read_pos + current_len, current_len <= limit, read_pos + limit <= buf.len().
    #[kani::proof]
    #[kani::unwind(26)]
    fn c14_extend_match() {
        let buf: [u8; B] = vk::any();
        let read_pos: i32 = vk::any();
        let current_len: i32 = vk::any();
        let distance: i32 = vk::any();
        let limit: i32 = vk::any();
        vk::assume(read_pos >= 0 && current_len >= 0 && current_len <= limit && limit <= B as i32);
        vk::assume(read_pos as usize + limit as usize <= B);
        vk::assume(distance >= 1 && distance <= read_pos + current_len);
        let r = extend_match(&buf, read_pos, current_len, distance, limit);
        let s1 = (read_pos + current_len) as usize;
        let s2 = s1 - distance as usize;
        let max = (limit - current_len) as usize;
        let mut n = 0usize;
        let mut done = false;
        let mut i = 0;
        while i < B {
            if !done && i < max {
                if buf[s1 + i] == buf[s2 + i] { n += 1; } else { done = true; }
            }
            i += 1;
        }
        assert!(r == current_len + n as i32);
        assert!(r <= limit);
        crate::vcover!(n >= 9 && n < max);
        crate::vcover!(n == max && max >= 17);
    }
