    // ===== src/xz.rs : multibyte integers, check types, filter ids, checksum calculator =====

    /// C02.mbi / C06.xz.parse: encode∘parse = id for every u64; three size functions agree.
    #[kani::proof]
    #[kani::unwind(11)]
    #[kani::stub(crate::error_invalid_data, crate::vk::err_invalid_data)]
    fn c02_mbi_roundtrip() {
        let v: u64 = vk::any();
        let mut buf = [0u8; 10];
        match encode_multibyte_integer(v, &mut buf) {
            Err(e) => {
                assert!(v > u64::MAX / 2);
                assert!(vk::kind_of(&e) == vk::Kind::InvalidData);
            }
            Ok(n) => {
                assert!(v <= u64::MAX / 2);
                assert!(n >= 1 && n <= 9);
                assert!(n == count_multibyte_integer_size_for_value(v));
                assert!(count_multibyte_integer_size(&buf) == n);
                assert!(count_multibyte_integer_size(&buf[..n]) == n);
                let r = parse_multibyte_integer(&buf[..n]);
                assert!(matches!(r, Ok(x) if x == v));
                // bytes past n untouched, all but the last byte carry the continuation bit
                let mut i = 0;
                while i < 10 {
                    if i + 1 < n { assert!(buf[i] & 0x80 != 0); }
                    if i + 1 == n { assert!(buf[i] & 0x80 == 0); }
                    if i >= n { assert!(buf[i] == 0); }
                    i += 1;
                }
                // minimal-length encoding (xz spec 1.2): last byte non-zero unless single byte
                assert!(n == 1 || buf[n - 1] != 0);
                // reader variant reads exactly n bytes and agrees
                let mut src = vk::Src::<10>::new(buf, 10);
                let r2 = parse_multibyte_integer_from_reader(&mut src);
                assert!(matches!(r2, Ok(x) if x == v));
                assert!(src.pos == n);
                crate::vcover!(n == 9);
                crate::vcover!(n == 1);
            }
        }
    }

    /// vacuity canary for c02_mbi_roundtrip: the Ok branch is reachable.
    #[kani::proof]
    #[kani::unwind(11)]
    #[kani::should_panic]
    #[kani::stub(crate::error_invalid_data, crate::vk::err_invalid_data)]
    fn c02_mbi_canary() {
        let v: u64 = vk::any();
        let mut buf = [0u8; 10];
        if encode_multibyte_integer(v, &mut buf).is_ok() {
            assert!(false);
        }
    }

    /// C06.xz.parse / C04: parse_multibyte_integer on arbitrary bytes of every length 0..=10: total, value < 2^63,
    /// consumes what count_multibyte_integer_size says; slice and reader variants agree.
    fn mbi_parse_total_len(len: usize) {
        let buf: [u8; 10] = vk::any();
        let r = parse_multibyte_integer(&buf[..len]);
        let c = count_multibyte_integer_size(&buf[..len]);
        assert!(c <= len);
        let mut src = vk::Src::<10>::new(buf, len);
        let r2 = parse_multibyte_integer_from_reader(&mut src);
        match (&r, &r2) {
            (Ok(v), Ok(v2)) => {
                assert!(*v <= u64::MAX / 2);
                assert!(v == v2);
                assert!(c >= 1 && c <= 9);
                assert!(buf[c - 1] & 0x80 == 0);
                assert!(src.pos == c);
            }
            (Err(e), Err(_)) => {
                assert!(vk::kind_of(&e) == vk::Kind::InvalidData);
            }
            _ => assert!(false),
        }
        if len >= 1 { crate::vcover!(r.is_ok()); }
        crate::vcover!(r.is_err());
    }
    #[kani::proof]
    #[kani::unwind(12)]
    #[kani::stub(crate::error_invalid_data, crate::vk::err_invalid_data)]
    #[kani::stub(crate::error_eof, crate::vk::err_eof)]
    fn c06_mbi_parse_total_0() { mbi_parse_total_len(0); }
    #[kani::proof]
    #[kani::unwind(12)]
    #[kani::stub(crate::error_invalid_data, crate::vk::err_invalid_data)]
    #[kani::stub(crate::error_eof, crate::vk::err_eof)]
    fn c06_mbi_parse_total_1() { mbi_parse_total_len(1); }
    #[kani::proof]
    #[kani::unwind(12)]
    #[kani::stub(crate::error_invalid_data, crate::vk::err_invalid_data)]
    #[kani::stub(crate::error_eof, crate::vk::err_eof)]
    fn c06_mbi_parse_total_2() { mbi_parse_total_len(2); }
    #[kani::proof]
    #[kani::unwind(12)]
    #[kani::stub(crate::error_invalid_data, crate::vk::err_invalid_data)]
    #[kani::stub(crate::error_eof, crate::vk::err_eof)]
    fn c06_mbi_parse_total_3() { mbi_parse_total_len(3); }
    #[kani::proof]
    #[kani::unwind(12)]
    #[kani::stub(crate::error_invalid_data, crate::vk::err_invalid_data)]
    #[kani::stub(crate::error_eof, crate::vk::err_eof)]
    fn c06_mbi_parse_total_4() { mbi_parse_total_len(4); }
    #[kani::proof]
    #[kani::unwind(12)]
    #[kani::stub(crate::error_invalid_data, crate::vk::err_invalid_data)]
    #[kani::stub(crate::error_eof, crate::vk::err_eof)]
    fn c06_mbi_parse_total_5() { mbi_parse_total_len(5); }
    #[kani::proof]
    #[kani::unwind(12)]
    #[kani::stub(crate::error_invalid_data, crate::vk::err_invalid_data)]
    #[kani::stub(crate::error_eof, crate::vk::err_eof)]
    fn c06_mbi_parse_total_6() { mbi_parse_total_len(6); }
    #[kani::proof]
    #[kani::unwind(12)]
    #[kani::stub(crate::error_invalid_data, crate::vk::err_invalid_data)]
    #[kani::stub(crate::error_eof, crate::vk::err_eof)]
    fn c06_mbi_parse_total_7() { mbi_parse_total_len(7); }
    #[kani::proof]
    #[kani::unwind(12)]
    #[kani::stub(crate::error_invalid_data, crate::vk::err_invalid_data)]
    #[kani::stub(crate::error_eof, crate::vk::err_eof)]
    fn c06_mbi_parse_total_8() { mbi_parse_total_len(8); }
    #[kani::proof]
    #[kani::unwind(12)]
    #[kani::stub(crate::error_invalid_data, crate::vk::err_invalid_data)]
    #[kani::stub(crate::error_eof, crate::vk::err_eof)]
    fn c06_mbi_parse_total_9() { mbi_parse_total_len(9); }
    #[kani::proof]
    #[kani::unwind(12)]
    #[kani::stub(crate::error_invalid_data, crate::vk::err_invalid_data)]
    #[kani::stub(crate::error_eof, crate::vk::err_eof)]
    fn c06_mbi_parse_total_10() { mbi_parse_total_len(10); }

    /// C03/C04: check type byte table is exactly the xz spec's supported subset; FilterType ids.
    #[kani::proof]
    #[kani::unwind(2)]
    #[kani::stub(crate::error_invalid_data, crate::vk::err_invalid_data)]
    fn c03_check_and_filter_ids() {
        let b: u8 = vk::any();
        match CheckType::from_byte(b) {
            Ok(t) => {
                assert!(t as u8 == b);
                assert!(b == 0 || b == 1 || b == 4 || b == 10);
            }
            Err(e) => {
                assert!(!(b == 0 || b == 1 || b == 4 || b == 10));
                assert!(vk::kind_of(&e) == vk::Kind::InvalidData);
            }
        }
        let id: u64 = vk::any();
        match FilterType::try_from(id) {
            Ok(FilterType::Delta) => assert!(id == 0x03),
            Ok(FilterType::BcjX86) => assert!(id == 0x04),
            Ok(FilterType::BcjPPC) => assert!(id == 0x05),
            Ok(FilterType::BcjIA64) => assert!(id == 0x06),
            Ok(FilterType::BcjARM) => assert!(id == 0x07),
            Ok(FilterType::BcjARMThumb) => assert!(id == 0x08),
            Ok(FilterType::BcjSPARC) => assert!(id == 0x09),
            Ok(FilterType::BcjARM64) => assert!(id == 0x0A),
            Ok(FilterType::BcjRISCV) => assert!(id == 0x0B),
            Ok(FilterType::LZMA2) => assert!(id == 0x21),
            Err(()) => assert!(!((id >= 3 && id <= 0x0B) || id == 0x21)),
        }
    }

    // ---- class-k contract of encode_multibyte_integer (used as a stub where the production code copies the encoding
    //      into a Vec: CBMC needs concrete lengths there). mbi_in_class(v,k): the canonical encoding of v has k bytes.
    pub(crate) fn mbi_in_class(v: u64, k: usize) -> bool {
        if k == 1 { v < 0x80 } else if k >= 10 { false } else { (v >> (7 * (k - 1))) != 0 && (k == 9 || (v >> (7 * k)) == 0) && v <= u64::MAX / 2 }
    }
    static mut MBI_CLASS: [usize; 8] = [0; 8];
    static mut MBI_CALLS: usize = 0;
    static mut MBI_LEN: usize = 0;
    /// classes of the successive encode calls the harness expects; after the schedule is exhausted it repeats (reader side
    /// re-encodes the same numbers in the same order to recompute the CRC).
    pub(crate) fn mbi_schedule(ks: &[usize]) {
        unsafe {
            let mut i = 0;
            while i < ks.len() { MBI_CLASS[i] = ks[i]; i += 1; }
            MBI_LEN = ks.len();
            MBI_CALLS = 0;
        }
    }
    pub(crate) fn encode_mbi_class_stub(value: u64, buf: &mut [u8]) -> Result<usize> {
        let k = unsafe { let k = MBI_CLASS[MBI_CALLS % MBI_LEN]; MBI_CALLS += 1; k };
        vk::assume(mbi_in_class(value, k));
        assert!(buf.len() >= k);
        let mut v = value;
        let mut i = 0;
        while i + 1 < k { buf[i] = (v as u8) | 0x80; v >>= 7; i += 1; }
        buf[k - 1] = v as u8;
        Ok(k)
    }
    /// proves the class-k contract against the real encoder: for every v in class k the real function returns k and
    /// writes exactly the bytes the stub writes.
    fn mbi_class_contract(k: usize) {
        let v: u64 = vk::any();
        vk::assume(mbi_in_class(v, k));
        let mut a = [0u8; 10];
        let mut b = [0u8; 10];
        mbi_schedule(&[k]);
        let ra = encode_multibyte_integer(v, &mut a);
        let rb = encode_mbi_class_stub(v, &mut b);
        assert!(matches!(ra, Ok(n) if n == k));
        assert!(matches!(rb, Ok(n) if n == k));
        assert!(a == b);
        assert!(count_multibyte_integer_size_for_value(v) == k);
    }
    #[kani::proof]
    #[kani::unwind(11)]
    #[kani::stub(crate::error_invalid_data, crate::vk::err_invalid_data)]
    fn c02_mbi_class_1() { mbi_class_contract(1); }
    #[kani::proof]
    #[kani::unwind(11)]
    #[kani::stub(crate::error_invalid_data, crate::vk::err_invalid_data)]
    fn c02_mbi_class_2() { mbi_class_contract(2); }
    #[kani::proof]
    #[kani::unwind(11)]
    #[kani::stub(crate::error_invalid_data, crate::vk::err_invalid_data)]
    fn c02_mbi_class_3() { mbi_class_contract(3); }
    #[kani::proof]
    #[kani::unwind(11)]
    #[kani::stub(crate::error_invalid_data, crate::vk::err_invalid_data)]
    fn c02_mbi_class_4() { mbi_class_contract(4); }
    #[kani::proof]
    #[kani::unwind(11)]
    #[kani::stub(crate::error_invalid_data, crate::vk::err_invalid_data)]
    fn c02_mbi_class_5() { mbi_class_contract(5); }
    #[kani::proof]
    #[kani::unwind(11)]
    #[kani::stub(crate::error_invalid_data, crate::vk::err_invalid_data)]
    fn c02_mbi_class_6() { mbi_class_contract(6); }
    #[kani::proof]
    #[kani::unwind(11)]
    #[kani::stub(crate::error_invalid_data, crate::vk::err_invalid_data)]
    fn c02_mbi_class_7() { mbi_class_contract(7); }
    #[kani::proof]
    #[kani::unwind(11)]
    #[kani::stub(crate::error_invalid_data, crate::vk::err_invalid_data)]
    fn c02_mbi_class_8() { mbi_class_contract(8); }
    #[kani::proof]
    #[kani::unwind(11)]
    #[kani::stub(crate::error_invalid_data, crate::vk::err_invalid_data)]
    fn c02_mbi_class_9() { mbi_class_contract(9); }

    // ---------------------------------------------------------------- ChecksumCalculator
    use sha2::Digest as _;
    fn spec_check_value(c: CheckType, data: &[u8], out: &mut [u8; 32]) -> usize {
        match c {
            CheckType::None => 0,
            CheckType::Crc32 => { let v = CRC32.checksum(data).to_le_bytes(); out[..4].copy_from_slice(&v); 4 }
            CheckType::Crc64 => { let v = CRC64.checksum(data).to_le_bytes(); out[..8].copy_from_slice(&v); 8 }
            CheckType::Sha256 => { let mut s = sha2::Sha256::new(); s.update(data); let v = s.finalize(); out.copy_from_slice(&v[..32]); 32 }
        }
    }
    /// C04.check: ChecksumCalculator fed `data` (in two pieces) verifies `expected` ⇔ expected is exactly the Check
    /// field of `data` (every byte compared, length must match; CheckType::None accepts the empty field).
    fn checksum_verify(c: CheckType) {
        let data: [u8; 5] = vk::any();
        let split: usize = 2;
        let mut calc = ChecksumCalculator::new(c);
        calc.update(&data[..split]);
        calc.update(&data[split..]);
        let mut want = [0u8; 32];
        let l = spec_check_value(c, &data, &mut want);
        let exp: [u8; 32] = vk::any();
        let ok = calc.verify(&exp[..l]);
        let mut same = true;
        let mut i = 0;
        while i < 32 { if i < l && exp[i] != want[i] { same = false; } i += 1; }
        assert!(ok == same);
        crate::vcover!(ok);
        crate::vcover!(!ok);
    }
    fn checksum_verify_len(c: CheckType, l: usize) {
        // wrong field length is never accepted (except None, which ignores the field)
        let mut calc = ChecksumCalculator::new(c);
        calc.update(&[1, 2, 3]);
        let exp: [u8; 40] = vk::any();
        let ok = calc.verify(&exp[..l]);
        assert!(!ok);
    }
    #[kani::proof]
    #[kani::unwind(34)]
    fn c04_checksum_verify_crc32() { checksum_verify(CheckType::Crc32); checksum_verify_len(CheckType::Crc32, 3); checksum_verify_len(CheckType::Crc32, 8); }
    #[kani::proof]
    #[kani::unwind(34)]
    fn c04_checksum_verify_crc64() { checksum_verify(CheckType::Crc64); checksum_verify_len(CheckType::Crc64, 4); checksum_verify_len(CheckType::Crc64, 9); }
    #[kani::proof]
    #[kani::unwind(34)]
    fn c04_checksum_verify_sha256() { checksum_verify(CheckType::Sha256); checksum_verify_len(CheckType::Sha256, 31); checksum_verify_len(CheckType::Sha256, 33); }
    #[kani::proof]
    #[kani::unwind(34)]
    fn c04_checksum_verify_none() {
        let mut calc = ChecksumCalculator::new(CheckType::None);
        calc.update(&[1, 2, 3]);
        assert!(calc.verify(&[]));
    }

    // ---------------------------------------------------------------- slice multibyte integers by contract (callers' harnesses)
    // parse_multibyte_integer / count_multibyte_integer_size replaced by their contract at call sites whose harness would
    // otherwise multiply the byte loops of up to four filter records (BlockHeader::parse). Exact for encodings of 1..3
    // bytes (loop-free transcription, equal to the real functions: proved in C02.mbi c06_mbi_contract_short); for longer
    // encodings an over-approximation: count = any k in 4..=len (or len when unterminated), parse = Err or any value
    // < 2^63, chosen independently (a superset of the real behaviours, so a caller proved safe against it is safe).
    pub(crate) fn mbi_parse_contract(data: &[u8]) -> Result<u64> {
        if data.len() == 0 { return Err(crate::vk::err_invalid_data("")); }
        if data[0] & 0x80 == 0 { return Ok(data[0] as u64); }
        if data.len() == 1 { return Err(crate::vk::err_invalid_data("")); }
        if data[1] & 0x80 == 0 { return Ok((data[0] & 0x7F) as u64 | ((data[1] as u64) << 7)); }
        if data.len() == 2 { return Err(crate::vk::err_invalid_data("")); }
        if data[2] & 0x80 == 0 { return Ok((data[0] & 0x7F) as u64 | (((data[1] & 0x7F) as u64) << 7) | ((data[2] as u64) << 14)); }
        if data.len() == 3 { return Err(crate::vk::err_invalid_data("")); }
        if vk::any::<bool>() { return Err(crate::vk::err_invalid_data("")); }
        let v: u64 = vk::any();
        vk::assume(v < (1u64 << 63));
        Ok(v)
    }
    pub(crate) fn mbi_count_contract(data: &[u8]) -> usize {
        if data.len() == 0 { return 0; }
        if data[0] & 0x80 == 0 { return 1; }
        if data.len() == 1 { return 1; }
        if data[1] & 0x80 == 0 { return 2; }
        if data.len() == 2 { return 2; }
        if data[2] & 0x80 == 0 { return 3; }
        if data.len() == 3 { return 3; }
        let k: usize = vk::any();
        vk::assume(k >= 4 && k <= data.len());
        k
    }
    /// the contract above is met by the real functions: for every slice of <= 5 bytes the real results are among those the
    /// contract allows (equal for 1..3-byte encodings).
    #[kani::proof]
    #[kani::unwind(8)]
    //@ERR
    fn c06_mbi_contract_short() {
        let b: [u8; 5] = vk::any();
        let n: usize = vk::any();
        vk::assume(n <= 5);
        let d = &b[..n];
        let p = parse_multibyte_integer(d);
        let c = count_multibyte_integer_size(d);
        let t = if n > 0 && b[0] & 0x80 == 0 { 1 } else if n > 1 && b[1] & 0x80 == 0 { 2 } else if n > 2 && b[2] & 0x80 == 0 { 3 } else { 0 };
        if t > 0 || n <= 3 {
            let pc = mbi_parse_contract(d);
            let cc = mbi_count_contract(d);
            assert!(c == cc);
            match (p, pc) { (Ok(x), Ok(y)) => assert!(x == y), (Err(_), Err(_)) => {}, _ => assert!(false, "contract differs from the real parser") }
        } else {
            assert!(c >= 4 && c <= n);
            if let Ok(v) = p { assert!(v < (1u64 << 63)); }
        }
    }
