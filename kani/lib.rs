// Appended to src/lib.rs of the scratch copy (never to /repo) by tools/inject.py.
// `vk` is the only way harnesses obtain nondeterministic values, so that the same harness
// function runs under Kani (symbolic) and natively (replay of a counterexample).

#[cfg(any(kani, verif_replay))]
#[allow(unused)]
pub(crate) mod vk {
    use super::*;

    // ------------------------------------------------------------------ nondeterminism
    #[cfg(kani)]
    pub(crate) fn any<T: kani::Arbitrary>() -> T {
        kani::any()
    }
    #[cfg(kani)]
    pub(crate) fn assume(c: bool) {
        kani::assume(c)
    }

    #[cfg(not(kani))]
    pub(crate) trait Replay: Sized {
        fn take() -> Self;
    }
    /// next recorded value (Kani records one byte vector per primitive `kani::any()`; arrays are recorded per element)
    #[cfg(not(kani))]
    fn next_bytes(n: usize) -> Vec<u8> {
        VALUES.with(|c| {
            let mut g = c.borrow_mut();
            let idx = g.1;
            g.1 += 1;
            let mut b = if idx < g.0.len() { g.0[idx].clone() } else { Vec::new() };
            b.resize(n.max(b.len()), 0);
            b
        })
    }
    #[cfg(not(kani))]
    macro_rules! impl_replay_int {
        ($($t:ty),*) => {$(
            impl Replay for $t {
                fn take() -> Self {
                    let b = next_bytes(core::mem::size_of::<$t>());
                    let mut a = [0u8; core::mem::size_of::<$t>()];
                    a.copy_from_slice(&b[..core::mem::size_of::<$t>()]);
                    <$t>::from_le_bytes(a)
                }
            }
        )*};
    }
    #[cfg(not(kani))]
    impl_replay_int!(u8, u16, u32, u64, usize, i8, i16, i32, i64, isize);
    #[cfg(not(kani))]
    impl Replay for bool {
        fn take() -> Self {
            next_bytes(1)[0] & 1 == 1
        }
    }
    #[cfg(not(kani))]
    impl<T: Replay + Copy + Default, const N: usize> Replay for [T; N] {
        fn take() -> Self {
            let mut out = [T::default(); N];
            for i in 0..N {
                out[i] = T::take();
            }
            out
        }
    }
    #[cfg(not(kani))]
    extern crate std;
    #[cfg(not(kani))]
    use std::{vec::Vec, format, vec};
    #[cfg(not(kani))]
    std::thread_local! {
        static VALUES: core::cell::RefCell<(Vec<Vec<u8>>, usize)> = core::cell::RefCell::new((Vec::new(), 0));
    }
    /// Loads the counterexample values from VERIF_REPLAY_VALUES ("hex,hex,…", one entry per kani::any call).
    #[cfg(not(kani))]
    pub(crate) fn replay_begin() {
        let s = std::env::var("VERIF_REPLAY_VALUES").unwrap_or_default();
        let mut v = Vec::new();
        for part in s.split(',') {
            let part = part.trim();
            if part.is_empty() {
                continue;
            }
            let mut bytes = Vec::new();
            let cs: Vec<char> = part.chars().collect();
            let mut i = 0;
            while i + 1 < cs.len() {
                bytes.push(u8::from_str_radix(&format!("{}{}", cs[i], cs[i + 1]), 16).unwrap());
                i += 2;
            }
            v.push(bytes);
        }
        VALUES.with(|c| *c.borrow_mut() = (v, 0));
    }
    #[cfg(not(kani))]
    pub(crate) fn any<T: Replay>() -> T {
        T::take()
    }
    #[cfg(not(kani))]
    pub(crate) fn assume(c: bool) {
        if !c {
            // the replayed values do not satisfy the harness precondition: not a counterexample
            std::println!("VERIF-REPLAY: assumption violated, values are not a counterexample");
            std::process::exit(77);
        }
    }

    // ------------------------------------------------------------------ error kinds (std and no_std builds)
    #[derive(PartialEq, Eq, Clone, Copy, Debug)]
    pub(crate) enum Kind { Eof, Interrupted, InvalidData, InvalidInput, OutOfMemory, Other, Unsupported, WriteZero, Unknown }

    #[cfg(feature = "std")]
    pub(crate) fn kind_of(e: &Error) -> Kind {
        use std::io::ErrorKind as K;
        match e.kind() {
            K::UnexpectedEof => Kind::Eof,
            K::Interrupted => Kind::Interrupted,
            K::InvalidData => Kind::InvalidData,
            K::InvalidInput => Kind::InvalidInput,
            K::OutOfMemory => Kind::OutOfMemory,
            K::Other => Kind::Other,
            K::Unsupported => Kind::Unsupported,
            K::WriteZero => Kind::WriteZero,
            _ => Kind::Unknown,
        }
    }
    #[cfg(feature = "std")]
    pub(crate) fn mk_err(k: Kind) -> Error {
        use std::io::ErrorKind as K;
        Error::from(match k {
            Kind::Eof => K::UnexpectedEof,
            Kind::Interrupted => K::Interrupted,
            Kind::InvalidData => K::InvalidData,
            Kind::InvalidInput => K::InvalidInput,
            Kind::OutOfMemory => K::OutOfMemory,
            Kind::Other => K::Other,
            Kind::Unsupported => K::Unsupported,
            Kind::WriteZero => K::WriteZero,
            Kind::Unknown => K::ConnectionReset,
        })
    }
    #[cfg(not(feature = "std"))]
    pub(crate) fn kind_of(e: &Error) -> Kind {
        match e {
            Error::EOF => Kind::Eof,
            Error::Interrupted => Kind::Interrupted,
            Error::InvalidData(_) => Kind::InvalidData,
            Error::InvalidInput(_) => Kind::InvalidInput,
            Error::OutOfMemory(_) => Kind::OutOfMemory,
            Error::Other(m) => if m.len() == 14 { Kind::Unknown } else { Kind::Other },   // "injected fault"
            Error::Unsupported(_) => Kind::Unsupported,
            Error::WriteZero(_) => Kind::WriteZero,
        }
    }
    #[cfg(not(feature = "std"))]
    pub(crate) fn mk_err(k: Kind) -> Error {
        match k {
            Kind::Eof => Error::EOF,
            Kind::Interrupted => Error::Interrupted,
            Kind::InvalidData => Error::InvalidData(""),
            Kind::InvalidInput => Error::InvalidInput(""),
            Kind::OutOfMemory => Error::OutOfMemory(""),
            Kind::Other => Error::Other(""),
            Kind::Unsupported => Error::Unsupported(""),
            Kind::WriteZero => Error::WriteZero(""),
            Kind::Unknown => Error::Other("injected fault"),
        }
    }

    // ------------------------------------------------------------------ error constructor stubs
    // std build: `io::Error::new(kind, &str)` boxes a String; its drop glue makes CBMC blow up. The stubs keep
    // the ErrorKind, which is all that any contract in /verif talks about. (no_std build: same values as the originals.)
    pub(crate) fn err_eof() -> Error { mk_err(Kind::Eof) }
    pub(crate) fn err_other(_m: &'static str) -> Error { mk_err(Kind::Other) }
    pub(crate) fn err_invalid_input(_m: &'static str) -> Error { mk_err(Kind::InvalidInput) }
    pub(crate) fn err_invalid_data(_m: &'static str) -> Error { mk_err(Kind::InvalidData) }
    pub(crate) fn err_out_of_memory(_m: &'static str) -> Error { mk_err(Kind::OutOfMemory) }
    pub(crate) fn err_unsupported(_m: &'static str) -> Error { mk_err(Kind::Unsupported) }
    pub(crate) fn err_copy(e: &Error) -> Error { mk_err(kind_of(e)) }

    // ------------------------------------------------------------------ spec functions shared between modules
    /// xz-java Hash234.getHash4Size: size (entries) of the 4-byte hash table for a dictionary size
    pub(crate) fn spec_hash4_size(dict_size: u32) -> u32 {
        let mut h = dict_size - 1;
        h |= h >> 1;
        h |= h >> 2;
        h |= h >> 4;
        h |= h >> 8;
        h >>= 1;
        h |= 0xFFFF;
        if h > (1 << 24) { h >>= 1; }
        h + 1
    }
    /// xz-java LZEncoder.getBufSize: bytes of the encoder window buffer
    pub(crate) fn spec_buf_size(dict_size: u32, extra_before: u32, extra_after: u32, match_len_max: u32) -> u64 {
        let keep_before = extra_before as u64 + dict_size as u64;
        let keep_after = extra_after as u64 + match_len_max as u64;
        let reserve = core::cmp::min(dict_size as u64 / 2 + (256 << 10), 512 << 20);
        keep_before + keep_after + reserve
    }

    // ------------------------------------------------------------------ bit channel (C01.sym.*): the range coder by contract
    // The arithmetic coder is replaced by a FIFO of (probability-slot tag, bit) events: the encoder side appends, the
    // decoder side consumes and *asserts that it reads the slot the encoder wrote* (slots of both coders carry equal tags).
    pub(crate) const CH_CAP: usize = 48;
    pub(crate) static mut CH_TAG: [u32; CH_CAP] = [0; CH_CAP];
    pub(crate) static mut CH_VAL: [u32; CH_CAP] = [0; CH_CAP];
    pub(crate) static mut CH_W: usize = 0;
    pub(crate) static mut CH_R: usize = 0;
    pub(crate) const CH_DIRECT: u32 = 0x0100_0000;      // tag of a run of direct bits: CH_DIRECT | count
    // slot identity = (registered object k, byte offset inside it): the encoder's and the decoder's probability
    // structures (LZMACoder, LengthCoder) have the same type, hence the same layout, so equal offsets = same slot
    pub(crate) static mut CH_ENC_BASE: [usize; 3] = [0; 3];
    pub(crate) static mut CH_DEC_BASE: [usize; 3] = [0; 3];
    pub(crate) static mut CH_SIZE: [usize; 3] = [0; 3];
    pub(crate) fn ch_register<T>(k: usize, enc: &T, dec: &T) {
        unsafe { CH_ENC_BASE[k] = enc as *const T as usize; CH_DEC_BASE[k] = dec as *const T as usize; CH_SIZE[k] = core::mem::size_of::<T>(); }
    }
    fn ch_slot(addr: usize, bases: &[usize; 3]) -> u32 {
        unsafe {
            let mut k = 0;
            while k < 3 {
                if CH_SIZE[k] != 0 && addr >= bases[k] && addr < bases[k] + CH_SIZE[k] { return ((k as u32 + 1) << 20) | (addr - bases[k]) as u32; }
                k += 1;
            }
        }
        panic!("probability slot outside the registered coder structures");
    }
    pub(crate) fn ch_enc_slot(addr: usize) -> u32 { ch_slot(addr, unsafe { &CH_ENC_BASE }) }
    pub(crate) fn ch_dec_slot(addr: usize) -> u32 { ch_slot(addr, unsafe { &CH_DEC_BASE }) }
    pub(crate) fn ch_reset() { unsafe { CH_W = 0; CH_R = 0; CH_SIZE = [0; 3]; } }
    pub(crate) fn ch_put(tag: u32, val: u32) {
        unsafe { assert!(CH_W < CH_CAP, "bit channel capacity"); CH_TAG[CH_W] = tag; CH_VAL[CH_W] = val; CH_W += 1; }
    }
    pub(crate) fn ch_get(tag: u32) -> u32 {
        unsafe {
            assert!(CH_R < CH_W, "decoder reads more events than the encoder produced");
            assert!(CH_TAG[CH_R] == tag, "decoder reads a different probability slot than the encoder wrote");
            let v = CH_VAL[CH_R];
            CH_R += 1;
            v
        }
    }
    pub(crate) fn ch_drained() -> bool { unsafe { CH_R == CH_W } }
    /// a LengthCoder whose slots carry distinct tags (same layout on both sides); built at compile time (const) so that
    /// harnesses need no unwinding budget for 514 assignments
    pub(crate) const fn tagged_length_coder(base: u16) -> LengthCoder {
        let mut c = LengthCoder { choice: [base, base + 1], low: [[0; LOW_SYMBOLS]; POS_STATES_MAX], mid: [[0; MID_SYMBOLS]; POS_STATES_MAX], high: [0; HIGH_SYMBOLS] };
        let mut p = 0;
        while p < POS_STATES_MAX {
            let mut i = 0;
            while i < 8 { c.low[p][i] = base + 2 + (p * 8 + i) as u16; c.mid[p][i] = base + 130 + (p * 8 + i) as u16; i += 1; }
            p += 1;
        }
        let mut i = 0;
        while i < HIGH_SYMBOLS { c.high[i] = base + 258 + i as u16; i += 1; }
        c
    }
    pub(crate) const fn tag_row<const N: usize>(base: u16) -> [u16; N] {
        let mut a = [0u16; N];
        let mut i = 0;
        while i < N { a[i] = base + i as u16; i += 1; }
        a
    }
    pub(crate) const fn tag_grid<const R: usize, const C: usize>(base: u16) -> [[u16; C]; R] {
        let mut a = [[0u16; C]; R];
        let mut r = 0;
        while r < R { a[r] = tag_row::<C>(base + (r * C) as u16); r += 1; }
        a
    }
    /// an LZMACoder with given state/history (probabilities irrelevant under the bit channel)
    pub(crate) fn plain_coder(pb: usize, state: u8, reps: [i32; REPS]) -> LZMACoder {
        LZMACoder {
            pos_mask: (1u32 << pb) - 1, reps, state: State::from(state),
            is_match: [[0; POS_STATES_MAX]; STATES], is_rep: [0; STATES], is_rep0: [0; STATES], is_rep1: [0; STATES], is_rep2: [0; STATES],
            is_rep0_long: [[0; POS_STATES_MAX]; STATES], dist_slots: [[0; DIST_SLOTS]; DIST_STATES], dist_special: [0; 124], dist_align: [0; ALIGN_SIZE],
        }
    }
    /// an LZMACoder whose probability slots carry distinct tags (same layout for encoder and decoder)
    pub(crate) fn tagged_coder(pb: usize, state: u8, reps: [i32; REPS]) -> LZMACoder {
        const IS_MATCH: [[u16; POS_STATES_MAX]; STATES] = tag_grid::<STATES, POS_STATES_MAX>(3000);
        const IS_REP: [u16; STATES] = tag_row::<STATES>(3200);
        const IS_REP0: [u16; STATES] = tag_row::<STATES>(3220);
        const IS_REP1: [u16; STATES] = tag_row::<STATES>(3240);
        const IS_REP2: [u16; STATES] = tag_row::<STATES>(3260);
        const IS_REP0_LONG: [[u16; POS_STATES_MAX]; STATES] = tag_grid::<STATES, POS_STATES_MAX>(3300);
        const DIST_SLOTS: [[u16; DIST_SLOTS_N]; DIST_STATES] = tag_grid::<DIST_STATES, DIST_SLOTS_N>(3600);
        const DIST_SPECIAL: [u16; 124] = tag_row::<124>(3900);
        const DIST_ALIGN: [u16; ALIGN_SIZE] = tag_row::<ALIGN_SIZE>(4100);
        LZMACoder {
            pos_mask: (1u32 << pb) - 1, reps, state: State::from(state),
            is_match: IS_MATCH, is_rep: IS_REP, is_rep0: IS_REP0, is_rep1: IS_REP1, is_rep2: IS_REP2,
            is_rep0_long: IS_REP0_LONG, dist_slots: DIST_SLOTS, dist_special: DIST_SPECIAL, dist_align: DIST_ALIGN,
        }
    }
    const DIST_SLOTS_N: usize = DIST_SLOTS;
    pub(crate) const TAGGED_LEN_1000: LengthCoder = tagged_length_coder(1000);
    pub(crate) const TAGGED_LEN_2000: LengthCoder = tagged_length_coder(2000);

    // ------------------------------------------------------------------ payload-layer ghost state (see kani/enc/lzma2_writer.rs)
    pub(crate) static mut PL_CUR_IN: u64 = 0;          // bytes accepted by the current payload writer
    pub(crate) static mut PL_BLOCKS: [u64; 4] = [0; 4]; // bytes accepted by each finished payload writer
    pub(crate) static mut PL_N: usize = 0;             // number of finished payload writers
    pub(crate) static mut PL_EMIT: usize = 1;          // compressed bytes each payload emits on finish (1..=4)
    pub(crate) fn pl_reset(emit: usize) {
        unsafe { PL_CUR_IN = 0; PL_BLOCKS = [0; 4]; PL_N = 0; PL_EMIT = emit; }
    }

    // ------------------------------------------------------------------ chan_any: mpsc result channel by contract
    // std::sync::mpsc blocking paths (thread-local context + futex) cannot be compiled by Kani, and a sequential harness
    // has no worker threads anyway. The channel is replaced by its contract: a bag of messages that were sent and not
    // yet received. `try_recv` may return Empty although messages are in the bag (the worker "has not finished yet") or
    // hand out ANY message of the bag: all completion orders of the workers are covered at once. Blocking `recv` hands
    // out any message of the bag; with an empty bag the real call would park until a worker sends: recorded in the ghost
    // counter CHAN_WOULD_BLOCK and reported as disconnected (harnesses assert it never happens while results are owed).
    #[cfg(feature = "std")]
    pub(crate) const CHAN_CAP: usize = 4;
    #[cfg(feature = "std")]
    pub(crate) static mut CHAN_STORE: *mut u8 = core::ptr::null_mut();
    #[cfg(feature = "std")]
    pub(crate) static mut CHAN_WOULD_BLOCK: u32 = 0;
    #[cfg(feature = "std")]
    pub(crate) static mut CHAN_SENT: u32 = 0;
    #[cfg(feature = "std")]
    pub(crate) static mut CHAN_DISCONNECTED: bool = false;   // all senders gone (set by harnesses that model dead workers)
    #[cfg(feature = "std")]
    pub(crate) fn chan_init<T>() {
        let b: Box<[Option<T>; CHAN_CAP]> = Box::new([None, None, None, None]);
        unsafe { CHAN_STORE = Box::into_raw(b) as *mut u8; CHAN_WOULD_BLOCK = 0; CHAN_SENT = 0; CHAN_DISCONNECTED = false; }
    }
    #[cfg(feature = "std")]
    fn chan_slots<'a, T>() -> &'a mut [Option<T>; CHAN_CAP] {
        unsafe { assert!(!CHAN_STORE.is_null()); &mut *(CHAN_STORE as *mut [Option<T>; CHAN_CAP]) }
    }
    #[cfg(feature = "std")]
    pub(crate) fn chan_len<T>() -> usize {
        let s = chan_slots::<T>();
        let mut n = 0;
        let mut i = 0;
        while i < CHAN_CAP { if s[i].is_some() { n += 1; } i += 1; }
        n
    }
    #[cfg(feature = "std")]
    pub(crate) fn chan_put<T>(t: T) {
        let s = chan_slots::<T>();
        let mut i = 0;
        while i < CHAN_CAP {
            if s[i].is_none() { s[i] = Some(t); unsafe { CHAN_SENT += 1; } return; }
            i += 1;
        }
        assert!(false, "verif ghost channel capacity exceeded");
    }
    #[cfg(feature = "std")]
    fn chan_take_any<T>() -> Option<T> {
        if chan_len::<T>() == 0 { return None; }
        let i: usize = any();
        assume(i < CHAN_CAP);
        let s = chan_slots::<T>();
        assume(s[i].is_some());
        s[i].take()
    }
    #[cfg(feature = "std")]
    pub(crate) fn chan_send_stub<T>(_tx: &std::sync::mpsc::Sender<T>, t: T) -> core::result::Result<(), std::sync::mpsc::SendError<T>> {
        chan_put(t);
        Ok(())
    }
    #[cfg(feature = "std")]
    pub(crate) fn chan_try_recv_stub<T>(_rx: &std::sync::mpsc::Receiver<T>) -> core::result::Result<T, std::sync::mpsc::TryRecvError> {
        if chan_len::<T>() > 0 && any::<bool>() {
            return Ok(chan_take_any::<T>().unwrap());
        }
        if chan_len::<T>() == 0 && unsafe { CHAN_DISCONNECTED } { return Err(std::sync::mpsc::TryRecvError::Disconnected); }
        Err(std::sync::mpsc::TryRecvError::Empty)
    }
    #[cfg(feature = "std")]
    pub(crate) fn chan_recv_stub<T>(_rx: &std::sync::mpsc::Receiver<T>) -> core::result::Result<T, std::sync::mpsc::RecvError> {
        match chan_take_any::<T>() {
            Some(t) => Ok(t),
            None => { if !unsafe { CHAN_DISCONNECTED } { unsafe { CHAN_WOULD_BLOCK += 1; } } Err(std::sync::mpsc::RecvError) }
        }
    }

    // ------------------------------------------------------------------ map_any: BTreeMap reorder buffer by contract
    // BTreeMap::{insert,remove,is_empty} of std are too heavy for CBMC (node splitting code, > 200 s for one insert);
    // the coordinators use the map only as a finite partial function seq -> result. It is replaced by that contract on
    // a 4-slot ghost store (insert of a present key replaces, remove returns and deletes, capacity overflow is a harness
    // error). std's BTreeMap itself is not under test (listed as assumed).
    #[cfg(feature = "std")]
    pub(crate) static mut MAP_STORE: *mut u8 = core::ptr::null_mut();
    #[cfg(feature = "std")]
    pub(crate) fn map_init<K, V>() {
        let b: Box<[Option<(K, V)>; CHAN_CAP]> = Box::new([None, None, None, None]);
        unsafe { MAP_STORE = Box::into_raw(b) as *mut u8; }
    }
    #[cfg(feature = "std")]
    fn map_slots<'a, K, V>() -> &'a mut [Option<(K, V)>; CHAN_CAP] {
        unsafe { assert!(!MAP_STORE.is_null()); &mut *(MAP_STORE as *mut [Option<(K, V)>; CHAN_CAP]) }
    }
    #[cfg(feature = "std")]
    pub(crate) fn map_len<K, V>() -> usize {
        let s = map_slots::<K, V>();
        let mut n = 0;
        let mut i = 0;
        while i < CHAN_CAP { if s[i].is_some() { n += 1; } i += 1; }
        n
    }
    #[cfg(all(feature = "std", kani))]
    pub(crate) fn map_insert_stub<K: Ord, V, A: core::alloc::Allocator + Clone>(_m: &mut std::collections::BTreeMap<K, V, A>, k: K, v: V) -> Option<V> {
        let s = map_slots::<K, V>();
        let mut i = 0;
        while i < CHAN_CAP {
            let hit = match &s[i] { Some((k2, _)) => *k2 == k, None => false };
            if hit { return s[i].replace((k, v)).map(|e| e.1); }
            i += 1;
        }
        i = 0;
        while i < CHAN_CAP {
            if s[i].is_none() { s[i] = Some((k, v)); return None; }
            i += 1;
        }
        assert!(false, "verif ghost map capacity exceeded");
        None
    }
    #[cfg(all(feature = "std", kani))]
    pub(crate) fn map_remove_entry_stub<K, V, A: core::alloc::Allocator + Clone, Q: ?Sized>(_m: &mut std::collections::BTreeMap<K, V, A>, k: &Q) -> Option<(K, V)>
    where K: core::borrow::Borrow<Q> + Ord, Q: Ord {
        let s = map_slots::<K, V>();
        let mut i = 0;
        while i < CHAN_CAP {
            let hit = match &s[i] { Some((k2, _)) => k2.borrow() == k, None => false };
            if hit { return s[i].take(); }
            i += 1;
        }
        None
    }
    #[cfg(all(feature = "std", kani))]
    pub(crate) fn map_is_empty_stub<K, V, A: core::alloc::Allocator + Clone>(_m: &std::collections::BTreeMap<K, V, A>) -> bool {
        map_len::<K, V>() == 0
    }

    // ------------------------------------------------------------------ Arc payload destructors are not run (leak)
    // Arc::drop_slow (destroys the payload when the last reference goes away) reaches std::thread's Packet destructor
    // and other code built on the catch_unwind intrinsic, which Kani 0.68 cannot compile (ICE). In harnesses that drop MT
    // objects it is replaced by "leak the payload": reference counting itself still runs; no property here depends on
    // a payload destructor.
    #[cfg(all(feature = "std", kani))]
    pub(crate) fn arc_leak_stub<T: ?Sized, A: core::alloc::Allocator>(_a: &mut std::sync::Arc<T, A>) {}

    // ------------------------------------------------------------------ fixed-size sink / source
    /// Fixed-capacity sink: `Vec<u8>` growth is expensive for CBMC. Overflow of the capacity is a
    /// harness error (assert), never silently dropped.
    pub(crate) struct Sink<const N: usize> {
        pub(crate) buf: [u8; N],
        pub(crate) len: usize,
    }
    impl<const N: usize> Sink<N> {
        pub(crate) fn new() -> Self {
            Self { buf: [0u8; N], len: 0 }
        }
        pub(crate) fn bytes(&self) -> &[u8] {
            &self.buf[..self.len]
        }
    }
    impl<const N: usize> Write for Sink<N> {
        fn write(&mut self, b: &[u8]) -> Result<usize> {
            assert!(self.len + b.len() <= N, "verif sink capacity exceeded");
            if N <= 64 {
                // small sinks: byte loop (write lengths may be symbolic; a symbolic-size memcpy exhausts CBMC's memory)
                let mut i = 0;
                while i < b.len() {
                    self.buf[self.len + i] = b[i];
                    i += 1;
                }
            } else {
                self.buf[self.len..self.len + b.len()].copy_from_slice(b);
            }
            self.len += b.len();
            Ok(b.len())
        }
        fn flush(&mut self) -> Result<()> {
            Ok(())
        }
    }

    /// `io_any` for sinks: may accept only a prefix of each write (short write), report Interrupted, or fail at a call.
    pub(crate) struct SinkAny<const N: usize> {
        pub(crate) buf: [u8; N],
        pub(crate) len: usize,
        pub(crate) calls: usize,
        pub(crate) fail_at: usize,
        pub(crate) interrupts_left: u8,
        pub(crate) short: bool,
    }
    impl<const N: usize> SinkAny<N> {
        pub(crate) fn new() -> Self {
            Self { buf: [0u8; N], len: 0, calls: 0, fail_at: usize::MAX, interrupts_left: 0, short: false }
        }
    }
    impl<const N: usize> Write for SinkAny<N> {
        fn write(&mut self, b: &[u8]) -> Result<usize> {
            let call = self.calls;
            self.calls += 1;
            if call == self.fail_at {
                return Err(mk_err(Kind::Unknown));
            }
            if self.interrupts_left > 0 && any::<bool>() {
                self.interrupts_left -= 1;
                return Err(mk_err(Kind::Interrupted));
            }
            let n = if self.short && b.len() > 1 {
                let k: usize = any();
                assume(k >= 1 && k <= b.len());
                k
            } else {
                b.len()
            };
            assert!(self.len + n <= N, "verif sink capacity exceeded");
            // byte loop, not memcpy: n is symbolic here and N is tiny (a symbolic-size memcpy exhausts CBMC's memory)
            let mut i = 0;
            while i < n {
                self.buf[self.len + i] = b[i];
                i += 1;
            }
            self.len += n;
            Ok(n)
        }
        fn flush(&mut self) -> Result<()> {
            Ok(())
        }
    }

    /// Source over a fixed array with a read cursor; counts bytes delivered.
    pub(crate) struct Src<const N: usize> {
        pub(crate) buf: [u8; N],
        pub(crate) len: usize,
        pub(crate) pos: usize,
    }
    impl<const N: usize> Src<N> {
        pub(crate) fn new(buf: [u8; N], len: usize) -> Self {
            Self { buf, len, pos: 0 }
        }
    }
    impl<const N: usize> Read for Src<N> {
        fn read(&mut self, out: &mut [u8]) -> Result<usize> {
            let avail = self.len - self.pos;
            let n = if out.len() < avail { out.len() } else { avail };
            out[..n].copy_from_slice(&self.buf[self.pos..self.pos + n]);
            self.pos += n;
            Ok(n)
        }
    }

    /// `io_any`: a source that may deliver short reads, `Interrupted`, or a hard error at a chosen call index.
    /// Every behaviour `std::io::Read::read` allows (except delivering more than asked) is possible on every call.
    pub(crate) struct IoAny<const N: usize> {
        pub(crate) buf: [u8; N],
        pub(crate) len: usize,
        pub(crate) pos: usize,
        pub(crate) calls: usize,
        pub(crate) fail_at: usize,
        pub(crate) interrupts_left: u8,
        pub(crate) short: bool,
    }
    impl<const N: usize> IoAny<N> {
        pub(crate) fn new(buf: [u8; N], len: usize) -> Self {
            Self { buf, len, pos: 0, calls: 0, fail_at: usize::MAX, interrupts_left: 0, short: false }
        }
    }
    impl<const N: usize> Read for IoAny<N> {
        fn read(&mut self, out: &mut [u8]) -> Result<usize> {
            let call = self.calls;
            self.calls += 1;
            if call == self.fail_at {
                return Err(mk_err(Kind::Unknown));
            }
            if self.interrupts_left > 0 && any::<bool>() {
                self.interrupts_left -= 1;
                return Err(mk_err(Kind::Interrupted));
            }
            let avail = self.len - self.pos;
            let want = if out.len() < avail { out.len() } else { avail };
            let n = if self.short && want > 1 {
                let k: usize = any();
                assume(k >= 1 && k <= want);
                k
            } else {
                want
            };
            // byte loop, not memcpy: n is symbolic when `short` is set (see SinkAny)
            let mut i = 0;
            while i < n {
                out[i] = self.buf[self.pos + i];
                i += 1;
            }
            self.pos += n;
            Ok(n)
        }
    }
}

/// cover!: under Kani a reachability obligation (vacuity guard); natively a no-op.
#[cfg(kani)]
#[macro_export]
macro_rules! vcover {
    ($c:expr) => {
        kani::cover!($c)
    };
}
#[cfg(all(verif_replay, not(kani)))]
#[macro_export]
macro_rules! vcover {
    ($c:expr) => {
        let _ = $c;
    };
}
