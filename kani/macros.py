"""Attribute bundles used by harness files as `//@NAME` lines (expanded by tools/inject.py)."""
E = "crate::vk::"
LW = "crate::enc::lzma2_writer::verif_kani::"
MACROS = {
    # BTreeMap reorder buffer by contract (kani/lib.rs map_any)
    "MAP": [
        "#[kani::stub(std::collections::BTreeMap::insert, %smap_insert_stub)]" % E,
        "#[kani::stub(std::collections::BTreeMap::remove_entry, %smap_remove_entry_stub)]" % E,
        "#[kani::stub(std::collections::BTreeMap::is_empty, %smap_is_empty_stub)]" % E,
    ],
    # mpsc result channel by contract (kani/lib.rs chan_any)
    "CHAN": [
        "#[kani::stub(std::sync::mpsc::Sender::send, %schan_send_stub)]" % E,
        "#[kani::stub(std::sync::mpsc::Receiver::recv, %schan_recv_stub)]" % E,
        "#[kani::stub(std::sync::mpsc::Receiver::try_recv, %schan_try_recv_stub)]" % E,
    ],
    # error constructors -> kind-preserving stubs (see kani/lib.rs)
    "ERR": [
        "#[kani::stub(crate::error_invalid_data, %serr_invalid_data)]" % E,
        "#[kani::stub(crate::error_invalid_input, %serr_invalid_input)]" % E,
        "#[kani::stub(crate::error_eof, %serr_eof)]" % E,
        "#[kani::stub(crate::error_other, %serr_other)]" % E,
        "#[kani::stub(crate::error_out_of_memory, %serr_out_of_memory)]" % E,
        "#[kani::stub(crate::error_unsupported, %serr_unsupported)]" % E,
    ],
    # LZMA (LZMAWriter) payload layer by contract, seen from LZIP / .lzma framing: see kani/enc/lzma_writer.rs
    "PAYLOAD_LZMA_W": [
        "#[kani::stub(LZMAWriter::new, crate::enc::lzma_writer::verif_kani::lzma_new_zeroed)]",
        "#[kani::stub(LZMAWriter::finish, crate::enc::lzma_writer::verif_kani::lzma_finish_stub)]",
        "#[kani::stub(crate::enc::lz::LZEncoder::fill_window, %sfill_window_stub)]" % LW,
        "#[kani::stub(crate::enc::lz::LZEncoder::set_finishing, %slz_noop_stub)]" % LW,
        "#[kani::stub(crate::enc::encoder::LZMAEncoder::encode_for_lzma1, crate::enc::lzma_writer::verif_kani::encode_for_lzma1_stub)]",
    ],
    # as PAYLOAD_LZMA_W but with the real LZMAWriter::finish (its expected-size check is the subject of C18.lzma)
    "PAYLOAD_LZMA_REALFIN": [
        "#[kani::stub(crate::enc::lz::LZEncoder::fill_window, %sfill_window_stub)]" % LW,
        "#[kani::stub(crate::enc::lz::LZEncoder::set_finishing, %slz_noop_stub)]" % LW,
        "#[kani::stub(crate::enc::encoder::LZMAEncoder::encode_for_lzma1, crate::enc::lzma_writer::verif_kani::encode_for_lzma1_stub)]",
        "#[kani::stub(crate::enc::encoder::LZMAEncoder::encode_lzma1_end_marker, crate::enc::lzma_writer::verif_kani::end_marker_stub)]",
        "#[kani::stub(crate::enc::encoder::LZMAEncoder::new, crate::enc::lzma_writer::verif_kani::enc_new_zeroed)]",
    ],
    # range coder by contract: bit channel (kani/lib.rs); the real bit-tree / reverse-tree functions run on top of it
    "BITCHAN": [
        "#[kani::stub(crate::enc::range_enc::RangeEncoder::encode_bit, crate::enc::range_enc::verif_kani::enc_bit_stub)]",
        "#[kani::stub(crate::enc::range_enc::RangeEncoder::encode_direct_bits, crate::enc::range_enc::verif_kani::enc_direct_stub)]",
        "#[kani::stub(crate::range_dec::RangeDecoder::decode_bit, crate::range_dec::verif_kani::dec_bit_stub)]",
        "#[kani::stub(crate::range_dec::RangeDecoder::decode_direct_bits, crate::range_dec::verif_kani::dec_direct_stub)]",
    ],
    # LZMA2 payload layer by contract, seen from a container (XZ) writer: see kani/enc/lzma2_writer.rs
    "PAYLOAD_W": [
        "#[kani::stub(LZMA2Writer::new, %slzma2_new_zeroed)]" % LW,
        "#[kani::stub(LZMA2Writer::finish, %slzma2_finish_stub)]" % LW,
        "#[kani::stub(LZMA2Writer::write_chunk, %slzma2_write_chunk_stub)]" % LW,
        "#[kani::stub(LZMA2Writer::start_independent_chunk, %slzma2_start_independent_stub)]" % LW,
        "#[kani::stub(crate::enc::lz::LZEncoder::fill_window, %sfill_window_stub)]" % LW,
        "#[kani::stub(crate::enc::lz::LZEncoder::set_flushing, %slz_noop_stub)]" % LW,
        "#[kani::stub(crate::enc::lz::LZEncoder::set_finishing, %slz_noop_stub)]" % LW,
        "#[kani::stub(crate::enc::encoder::LZMAEncoder::encode_for_lzma2, %sencode_for_lzma2_stub)]" % LW,
    ],
}
