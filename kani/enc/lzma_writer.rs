    // ===== src/enc/lzma_writer.rs =====
    use crate::vk::{PL_BLOCKS, PL_CUR_IN, PL_EMIT, PL_N};

    /// contract stub for LZMAWriter::new used by container-level harnesses (payload layer by contract): encoder storage
    /// is zeroed (never driven: fill_window / encode_for_lzma1 are stubbed too), the real RangeEncoder wraps `out`,
    /// the bookkeeping fields the real `write`/`finish` prechecks read are set as the real constructor sets them.
    pub(crate) fn lzma_new_zeroed<W: Write>(
        out: W,
        options: &LZMAOptions,
        _use_header: bool,
        use_end_marker: bool,
        expected_uncompressed_size: Option<u64>,
    ) -> crate::Result<LZMAWriter<W>> {
        unsafe {
            let mut m = core::mem::MaybeUninit::<LZMAWriter<W>>::zeroed();
            let p = m.as_mut_ptr();
            core::ptr::addr_of_mut!((*p).rc).write(RangeEncoder::new(out));
            core::ptr::addr_of_mut!((*p).use_end_marker).write(use_end_marker);
            core::ptr::addr_of_mut!((*p).current_uncompressed_size).write(0);
            core::ptr::addr_of_mut!((*p).expected_uncompressed_size).write(expected_uncompressed_size);
            core::ptr::addr_of_mut!((*p).props).write(options.get_props());
            Ok(m.assume_init())
        }
    }
    /// LZMAWriter::finish by contract: appends PL_EMIT (1..=4) bytes to the inner writer and returns it; ghost-records the
    /// number of bytes this payload writer had accepted.
    pub(crate) fn lzma_finish_stub<W: Write>(s: LZMAWriter<W>) -> crate::Result<W> {
        unsafe {
            let s = core::mem::ManuallyDrop::new(s);
            let rc = core::ptr::read(&s.rc);
            let mut inner = rc.into_inner();
            assert!(PL_N < 4);
            PL_BLOCKS[PL_N] = PL_CUR_IN;
            PL_N += 1;
            PL_CUR_IN = 0;
            let data = [0xAAu8; 4];
            inner.write_all(&data[..PL_EMIT])?;
            Ok(inner)
        }
    }
    pub(crate) fn encode_for_lzma1_stub<W: Write>(
        _s: &mut LZMAEncoder,
        _rc: &mut RangeEncoder<W>,
        _mode: &mut dyn crate::enc::encoder::LZMAEncoderTrait,
    ) -> crate::Result<()> {
        Ok(())
    }
