    // ===== src/enc/lzma_writer.rs =====
    use crate::vk::{PL_BLOCKS, PL_CUR_IN, PL_EMIT, PL_N};

    /// contract stub for LZMAWriter::new used by container-level harnesses (payload layer by contract): encoder storage
    /// is zeroed (never driven: fill_window / encode_for_lzma1 are stubbed too), the real RangeEncoder wraps `out`,
    /// the bookkeeping fields the real `write`/`finish` prechecks read are set as the real constructor sets them.
    pub(crate) fn lzma_new_zeroed<W: Write>(
        out: W,
        options: &LZMAOptions,
        _use_header: bool,
        use_end_marker: bool,
        expected_uncompressed_size: Option<u64>,
    ) -> crate::Result<LZMAWriter<W>> {
        unsafe {
            let mut m = core::mem::MaybeUninit::<LZMAWriter<W>>::zeroed();
            let p = m.as_mut_ptr();
            core::ptr::addr_of_mut!((*p).rc).write(RangeEncoder::new(out));
            core::ptr::addr_of_mut!((*p).use_end_marker).write(use_end_marker);
            core::ptr::addr_of_mut!((*p).current_uncompressed_size).write(0);
            core::ptr::addr_of_mut!((*p).expected_uncompressed_size).write(expected_uncompressed_size);
            core::ptr::addr_of_mut!((*p).props).write(options.get_props());
            Ok(m.assume_init())
        }
    }
    /// LZMAWriter::finish by contract: appends PL_EMIT (1..=4) bytes to the inner writer and returns it; ghost-records the
    /// number of bytes this payload writer had accepted.
    pub(crate) fn lzma_finish_stub<W: Write>(s: LZMAWriter<W>) -> crate::Result<W> {
        unsafe {
            let s = core::mem::ManuallyDrop::new(s);
            let rc = core::ptr::read(&s.rc);
            let mut inner = rc.into_inner();
            assert!(PL_N < 4);
            PL_BLOCKS[PL_N] = PL_CUR_IN;
            PL_N += 1;
            PL_CUR_IN = 0;
            let data = [0xAAu8; 4];
            inner.write_all(&data[..PL_EMIT])?;
            Ok(inner)
        }
    }
    pub(crate) fn encode_for_lzma1_stub<W: Write>(
        _s: &mut LZMAEncoder,
        _rc: &mut RangeEncoder<W>,
        _mode: &mut dyn crate::enc::encoder::LZMAEncoderTrait,
    ) -> crate::Result<()> {
        Ok(())
    }

    pub(crate) fn end_marker_stub<W: Write>(_s: &mut LZMAEncoder, _rc: &mut RangeEncoder<W>) -> crate::Result<()> { Ok(()) }
    pub(crate) fn enc_new_zeroed(_mode: crate::EncodeMode, _lc: u32, _lp: u32, _pb: u32, _mf: crate::MFType, _depth: i32, _dict: u32, _nice: usize) -> (LZMAEncoder, LZMAEncoderModes) {
        unsafe { core::mem::MaybeUninit::<(LZMAEncoder, LZMAEncoderModes)>::zeroed().assume_init() }
    }
    fn lzma_opts(dict: u32, lc: u32, lp: u32, pb: u32) -> LZMAOptions {
        LZMAOptions { dict_size: dict, lc, lp, pb, mode: crate::EncodeMode::Fast, nice_len: 32, mf: crate::MFType::HC4, depth_limit: 0, preset_dict: None }
    }

    /// C03.lzma.hdr / C01.l1.hdr / C18.lzma: the real LZMAWriter::new writes the 13-byte .lzma header
    /// props | dict size (u32 LE) | uncompressed size (u64 LE, all ones when unknown) exactly when a header is requested,
    /// for every in-range lc/lp/pb, every dictionary size and every declared size; without header nothing is written.
    #[kani::proof]
    #[kani::unwind(10)]
    //@ERR
    #[kani::stub(crate::enc::encoder::LZMAEncoder::new, crate::enc::lzma_writer::verif_kani::enc_new_zeroed)]
    fn c03_lzma_header_bytes() {
        let (lc, lp, pb): (u32, u32, u32) = (vk::any(), vk::any(), vk::any());
        vk::assume(lc <= 8 && lp <= 4 && pb <= 4);
        let dict: u32 = vk::any();
        let declared: bool = vk::any();
        let size: u64 = vk::any();
        let use_header: bool = vk::any();
        let expected = if declared { Some(size) } else { None };
        let w = LZMAWriter::new(vk::Sink::<16>::new(), &lzma_opts(dict, lc, lp, pb), use_header, !declared, expected);
        match w {
            Ok(mut w) => {
                let sink = w.rc.inner();
                if use_header {
                    assert!(sink.len == 13);
                    assert!(sink.buf[0] as u32 == (pb * 5 + lp) * 9 + lc);
                    assert!(sink.buf[1..5] == dict.to_le_bytes());
                    assert!(sink.buf[5..13] == (if declared { size } else { u64::MAX }).to_le_bytes());
                } else {
                    assert!(sink.len == 0);
                }
                assert!(w.current_uncompressed_size == 0 && w.expected_uncompressed_size == expected && w.use_end_marker == !declared);
                assert!(w.props() as u32 == (pb * 5 + lp) * 9 + lc);
                core::mem::forget(w);
            }
            Err(_) => assert!(false),
        }
    }

    /// C18.lzma: a writer with a declared size E accepts writes exactly up to E bytes in total (a write that would exceed
    /// E is refused with InvalidInput and consumes nothing), counts every accepted byte once, and finish() succeeds iff
    /// exactly E bytes were written; without a declared size everything is accepted. (Encoder by contract.)
    #[kani::proof]
    #[kani::unwind(10)]
    //@ERR
    //@PAYLOAD_LZMA_REALFIN
    fn c18_lzma_expected_size() {
        use crate::vk::{pl_reset, PL_CUR_IN};
        pl_reset(1);
        let declared: bool = vk::any();
        let e: u64 = vk::any();
        vk::assume(e <= 200);
        let mut w = match LZMAWriter::new(vk::Sink::<16>::new(), &lzma_opts(4096, 3, 0, 2), false, !declared, if declared { Some(e) } else { None }) {
            Ok(w) => w, Err(_) => { assert!(false); return; }
        };
        static DATA: [u8; 128] = [9u8; 128];
        let n1: usize = vk::any();
        let n2: usize = vk::any();
        vk::assume(n1 <= 128 && n2 <= 128);
        let r1 = w.write(&DATA[..n1]);
        let ok1 = !declared || n1 as u64 <= e;
        assert!(r1.is_ok() == ok1);
        let a1 = if ok1 { n1 as u64 } else { 0 };
        if let Ok(k) = r1 { assert!(k == n1); }
        if let Err(ref er) = r1 { assert!(vk::kind_of(er) == vk::Kind::InvalidInput); }
        assert!(w.get_uncompressed_size() == a1);
        let r2 = w.write(&DATA[..n2]);
        let ok2 = !declared || a1 + n2 as u64 <= e;
        assert!(r2.is_ok() == ok2);
        let total = a1 + if ok2 { n2 as u64 } else { 0 };
        assert!(w.get_uncompressed_size() == total);
        assert!(unsafe { PL_CUR_IN } == total);          // the encoder received exactly the accepted bytes
        let fin = w.finish();
        assert!(fin.is_ok() == (!declared || total == e));
        crate::vcover!(declared && fin.is_ok() && total > 0);
        crate::vcover!(declared && !ok2 && ok1);
        core::mem::forget(fin);
    }

    /// scaffolding: give back the inner writer of a payload writer built by `lzma_new_zeroed` without running drop glue
    pub(crate) fn take_inner<W: Write>(s: LZMAWriter<W>) -> W {
        unsafe {
            let s = core::mem::ManuallyDrop::new(s);
            core::ptr::read(&s.rc).into_inner()
        }
    }
