    // ===== src/enc/encoder.rs =====

    /// C01.sym.slot: for every distance value: slot < 64; slots 0..3 are the distance itself; otherwise, with
    /// f = (slot>>1)-1 and base = (2|slot&1)<<f: base <= dist < base + 2^f, so `dist - base` cannot underflow, fits the
    /// f footer bits, and the decoder's reconstruction  base | footer  gives back dist. Slot is monotone in dist.
    #[kani::proof]
    #[kani::unwind(2)]
    fn c01_dist_slot() {
        let dist: u32 = vk::any();
        let slot = LZMAEncoder::get_dist_slot(dist);
        assert!(slot < 64);
        if dist < 4 {
            assert!(slot == dist);
        } else {
            assert!(slot >= 4);
            let f = (slot >> 1) - 1;
            assert!(f >= 1 && f <= 30);
            let base = (2 | (slot & 1)) << f;
            assert!(base <= dist);
            let reduced = dist - base;
            assert!((reduced as u64) < (1u64 << f));
            assert!((base | reduced) == dist);                      // decoder: reps0 = base | footer
            if slot >= 14 {
                // direct bits + 4 align bits
                assert!(f >= 6);
                assert!((((reduced >> 4) << 4) | (reduced & 15)) == reduced);
            }
        }
        let d2: u32 = vk::any();
        if d2 >= dist { assert!(LZMAEncoder::get_dist_slot(d2) >= slot); }
        // the end marker distance 0xFFFFFFFF uses the last slot with all footer bits set
        assert!(LZMAEncoder::get_dist_slot(u32::MAX) == 63);
    }

    /// C01.sym: length -> distance-state mapping shared by encoder and decoder: min(len-2, 3) for every match length
    #[kani::proof]
    #[kani::unwind(2)]
    fn c01_dist_state() {
        let len: u32 = vk::any();
        vk::assume(len >= 2 && len <= 273);
        let want = if len - 2 < 3 { len - 2 } else { 3 };
        assert!(crate::get_dist_state(len) == want);
        assert!(crate::coder_get_dict_size(len as usize) == want as usize);
    }

    // ---------------------------------------------------------------- symbol grammar mirror over the bit channel
    /// C01.sym.len: LengthEncoder::encode -> LengthCoder::decode over the bit channel, for every length 2..=273 and the
    /// given pos_state: the decoder returns the length, reads exactly the slots the encoder wrote, in the same order,
    /// and consumes every event.
    fn sym_len_mirror(pos_state: u32) {
        let len: u32 = vk::any();
        vk::assume(len >= 2 && len <= 273);
        sym_len_mirror_len(pos_state, len);
        crate::vcover!(len == 273);
        crate::vcover!(len == 9);
    }
    fn sym_len_mirror_len(pos_state: u32, len: u32) {
        let mut e = LengthEncoder::new(4, 273);
        let mut d = LengthCoder::new();
        vk::ch_reset();
        vk::ch_register(0, &e.coder, &d);
        let mut rce = RangeEncoder::new(vk::Sink::<4>::new());
        assert!(e.encode(len, pos_state, &mut rce).is_ok());
        let mut rcd = crate::range_dec::verif_kani::mk_decoder(vk::Src::<1>::new([0], 0), 0, 0);
        let got = crate::decoder::verif_kani::len_decode(&mut d, pos_state as usize, &mut rcd);
        assert!(got as u32 == len);
        assert!(vk::ch_drained());
    }
    #[kani::proof]
    #[kani::unwind(18)]
    //@ERR
    //@BITCHAN
    fn c01_sym_len_ps0() { sym_len_mirror(0); }
    #[kani::proof]
    #[kani::unwind(18)]
    //@ERR
    //@BITCHAN
    fn c01_sym_len_ps5() { sym_len_mirror(5); }
    #[kani::proof]
    #[kani::unwind(18)]
    //@ERR
    //@BITCHAN
    fn c01_sym_len_ps15() { sym_len_mirror(15); }

    fn mk_encoder_tagged(pb: usize, state: u8, reps: [i32; REPS]) -> core::mem::ManuallyDrop<LZMAEncoder> {
        unsafe {
            let mut m = core::mem::MaybeUninit::<LZMAEncoder>::zeroed();
            let p = m.as_mut_ptr();
            core::ptr::addr_of_mut!((*p).coder).write(vk::plain_coder(pb, state, reps));
            let ml = LengthEncoder::new(4, 273);
            let rl = LengthEncoder::new(4, 273);
            core::ptr::addr_of_mut!((*p).match_len_encoder).write(ml);
            core::ptr::addr_of_mut!((*p).rep_len_encoder).write(rl);
            core::mem::ManuallyDrop::new(m.assume_init())
        }
    }

    /// C01.sym.rep: encode_rep_match -> decode_rep_match over the bit channel, for every rep index, every length
    /// (1 = short rep, only for rep 0), every state and every rep history: the decoder returns the length, both sides
    /// end with the same rotated rep history (rep[0] = the chosen distance) and the same state, read/write the same
    /// probability slots in the same order, channel drained.
    fn sym_rep_mirror(pos_state: u32) {
        let rep: u32 = vk::any();
        let len: u32 = vk::any();
        let state: u8 = vk::any();
        let reps: [i32; REPS] = vk::any();
        vk::assume(rep < 4 && len >= 1 && len <= 273 && (len != 1 || rep == 0) && (state as usize) < crate::state::STATES);
        sym_rep_mirror_v(pos_state, rep, len, state, reps);
        crate::vcover!(rep == 3 && len == 273);
        crate::vcover!(len == 1);
    }
    #[kani::proof]
    #[kani::unwind(18)]
    //@ERR
    //@BITCHAN
    fn dbg_rep_a() { sym_rep_mirror_v(0, 0, 1, 0, [1, 2, 3, 4]); }
    #[kani::proof]
    #[kani::unwind(18)]
    //@ERR
    //@BITCHAN
    fn dbg_rep_b() { sym_rep_mirror_v(0, 0, 5, 0, [1, 2, 3, 4]); }
    #[kani::proof]
    #[kani::unwind(18)]
    //@ERR
    //@BITCHAN
    fn dbg_rep_c() { sym_rep_mirror_v(0, 2, 5, 7, [1, 2, 3, 4]); }
    fn sym_rep_mirror_v(pos_state: u32, rep: u32, len: u32, state: u8, reps: [i32; REPS]) {
        let mut e = mk_encoder_tagged(4, state, reps);
        let mut d = core::mem::ManuallyDrop::new(crate::decoder::verif_kani::mk_decoder_tagged(4, state, reps));
        vk::ch_reset();
        { let (dc, dm, dr) = crate::decoder::verif_kani::dec_parts(&d); vk::ch_register(0, &e.coder, dc); vk::ch_register(1, &e.match_len_encoder.coder, dm); vk::ch_register(2, &e.rep_len_encoder.coder, dr); }
        let mut rce = RangeEncoder::new(vk::Sink::<4>::new());
        assert!(e.encode_rep_match(rep, len, pos_state, &mut rce).is_ok());
        let mut rcd = crate::range_dec::verif_kani::mk_decoder(vk::Src::<1>::new([0], 0), 0, 0);
        let got = crate::decoder::verif_kani::dec_rep_match(&mut d, pos_state, &mut rcd);
        assert!(got == len);
        assert!(vk::ch_drained());
        let (dreps, dstate) = crate::decoder::verif_kani::dec_coder(&d);
        assert!(e.coder.reps == *dreps && e.coder.state.get() == dstate);
        assert!(e.coder.reps[0] == reps[rep as usize]);
    }
    #[kani::proof]
    #[kani::unwind(18)]
    //@ERR
    //@BITCHAN
    fn c01_sym_rep_ps0() { sym_rep_mirror(0); }
    #[kani::proof]
    #[kani::unwind(18)]
    //@ERR
    //@BITCHAN
    fn c01_sym_rep_ps9() { sym_rep_mirror(9); }

    /// C01.sym.match: encode_match -> decode_match over the bit channel for every distance of the class (including the
    /// end marker 0xFFFFFFFF), every length 2..=273, every state and rep history: same length, rep[0] = distance on both
    /// sides, history shifted, same state, same slots, channel drained.
    fn sym_match_mirror(pos_state: u32, lo: u32, hi: u32) {
        let dist: u32 = vk::any();
        let len: u32 = vk::any();
        let state: u8 = vk::any();
        let reps: [i32; REPS] = vk::any();
        vk::assume(dist >= lo && dist <= hi && len >= 2 && len <= 273 && (state as usize) < crate::state::STATES);
        let mut e = mk_encoder_tagged(4, state, reps);
        let mut d = core::mem::ManuallyDrop::new(crate::decoder::verif_kani::mk_decoder_tagged(4, state, reps));
        vk::ch_reset();
        { let (dc, dm, dr) = crate::decoder::verif_kani::dec_parts(&d); vk::ch_register(0, &e.coder, dc); vk::ch_register(1, &e.match_len_encoder.coder, dm); vk::ch_register(2, &e.rep_len_encoder.coder, dr); }
        let mut rce = RangeEncoder::new(vk::Sink::<4>::new());
        assert!(e.encode_match(dist, len, pos_state, &mut rce).is_ok());
        let mut rcd = crate::range_dec::verif_kani::mk_decoder(vk::Src::<1>::new([0], 0), 0, 0);
        let got = crate::decoder::verif_kani::dec_match(&mut d, pos_state, &mut rcd);
        assert!(got == len);
        assert!(vk::ch_drained());
        let (dreps, dstate) = crate::decoder::verif_kani::dec_coder(&d);
        assert!(e.coder.reps == *dreps && e.coder.state.get() == dstate);
        assert!(dreps[0] as u32 == dist && dreps[1] == reps[0] && dreps[2] == reps[1] && dreps[3] == reps[2]);
    }
    #[kani::proof]
    #[kani::unwind(34)]
    //@ERR
    //@BITCHAN
    fn c01_sym_match_small() { sym_match_mirror(3, 0, 3); }
    #[kani::proof]
    #[kani::unwind(34)]
    //@ERR
    //@BITCHAN
    fn c01_sym_match_mid() { sym_match_mirror(3, 4, 127); }
    #[kani::proof]
    #[kani::unwind(34)]
    //@ERR
    //@BITCHAN
    fn c01_sym_match_large() { sym_match_mirror(3, 128, u32::MAX); }

    /// C01.sym.lit: LiteralSubEncoder::encode -> LiteralSubDecoder::decode over the bit channel, in both literal modes:
    /// after a literal (plain 8-bit tree) and after a match (tree steered by the byte at distance rep0): for every byte
    /// value, every match byte and every state: the decoder appends exactly the encoded byte to its dictionary, both
    /// sides use the same probability slots in the same order and move to the same state.
    fn sym_lit_mirror(state: u8) {
        let cur: u8 = vk::any();
        let mbyte: u8 = vk::any();
        let rep0: i32 = vk::any();
        vk::assume(rep0 >= 0 && rep0 < 3);
        // encoder window: [.., match byte at distance rep0+1, .., current byte]; read_pos points at the current byte
        let mut lz = core::mem::ManuallyDrop::new(unsafe { core::mem::MaybeUninit::<LZEncoder>::zeroed().assume_init() });
        let mut buf = alloc::vec![7u8; 8];
        buf[5] = cur;
        buf[(5 - 1 - rep0) as usize] = mbyte;
        unsafe { core::ptr::write(&mut lz.data.buf, buf); }
        lz.data.read_pos = 5;
        let mut data = core::mem::ManuallyDrop::new(unsafe { core::mem::MaybeUninit::<LZMAEncData>::zeroed().assume_init() });
        data.read_ahead = 0;
        let mut ec = vk::plain_coder(2, state, [rep0, 9, 9, 9]);
        let mut dc = vk::plain_coder(2, state, [rep0, 9, 9, 9]);
        let mut se = LiteralSubEncoder::new();
        let mut sd = crate::decoder::verif_kani::LitDec::new();
        // decoder dictionary holds the same history (5 bytes), room for one more
        let mut dlz = crate::lz::LZDecoder::new(8, None);
        let mut i = 0;
        while i < 5 { dlz.put_byte(lz.data.buf[i]); i += 1; }
        dlz.set_limit(1);
        vk::ch_reset();
        vk::ch_register(0, &se.coder, sd.probs());
        let mut rce = RangeEncoder::new(vk::Sink::<4>::new());
        assert!(se.encode(&lz, &data, &mut ec, &mut rce).is_ok());
        let mut rcd = crate::range_dec::verif_kani::mk_decoder(vk::Src::<1>::new([0], 0), 0, 0);
        assert!(sd.decode(&mut dc, &mut dlz, &mut rcd).is_ok());
        assert!(dlz.get_byte(0) == cur);
        assert!(dlz.get_pos() == 6);
        assert!(vk::ch_drained());
        assert!(ec.state.get() == dc.state.get());
        crate::vcover!(cur != mbyte);
    }
    #[kani::proof]
    #[kani::unwind(10)]
    //@ERR
    //@BITCHAN
    fn c01_sym_lit_after_literal() { sym_lit_mirror(0); }
    #[kani::proof]
    #[kani::unwind(10)]
    //@ERR
    //@BITCHAN
    fn c01_sym_lit_after_literal5() { sym_lit_mirror(5); }
    #[kani::proof]
    #[kani::unwind(10)]
    //@ERR
    //@BITCHAN
    fn c01_sym_lit_after_match() { sym_lit_mirror(7); }
    #[kani::proof]
    #[kani::unwind(10)]
    //@ERR
    //@BITCHAN
    fn c01_sym_lit_after_rep() { sym_lit_mirror(11); }

    /// C01.sym.lit: both sides pick the same literal sub-coder for equal (previous byte, position): the shared
    /// LiteralCoder::get_sub_coder_index stays below 2^(lc+lp) for every in-range lc/lp.
    #[kani::proof]
    #[kani::unwind(2)]
    fn c01_sym_lit_subcoder_index() {
        let (lc, lp): (u32, u32) = (vk::any(), vk::any());
        vk::assume(lc <= 8 && lp <= 4 && lc + lp <= 12);
        let c = crate::LiteralCoder::new(lc, lp);
        let prev: u32 = vk::any();
        let pos: u32 = vk::any();
        vk::assume(prev < 256);
        let i = c.get_sub_coder_index(prev, pos);
        assert!(i < (1u32 << (lc + lp)));
        assert!(i == (prev >> (8 - lc)) + ((pos & ((1 << lp) - 1)) << lc));
    }
