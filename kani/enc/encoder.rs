    // ===== src/enc/encoder.rs =====

    /// C01.sym.slot: for every distance value: slot < 64; slots 0..3 are the distance itself; otherwise, with
    /// f = (slot>>1)-1 and base = (2|slot&1)<<f: base <= dist < base + 2^f, so `dist - base` cannot underflow, fits the
    /// f footer bits, and the decoder's reconstruction  base | footer  gives back dist. Slot is monotone in dist.
    #[kani::proof]
    #[kani::unwind(2)]
    fn c01_dist_slot() {
        let dist: u32 = vk::any();
        let slot = LZMAEncoder::get_dist_slot(dist);
        assert!(slot < 64);
        if dist < 4 {
            assert!(slot == dist);
        } else {
            assert!(slot >= 4);
            let f = (slot >> 1) - 1;
            assert!(f >= 1 && f <= 30);
            let base = (2 | (slot & 1)) << f;
            assert!(base <= dist);
            let reduced = dist - base;
            assert!((reduced as u64) < (1u64 << f));
            assert!((base | reduced) == dist);                      // decoder: reps0 = base | footer
            if slot >= 14 {
                // direct bits + 4 align bits
                assert!(f >= 6);
                assert!((((reduced >> 4) << 4) | (reduced & 15)) == reduced);
            }
        }
        let d2: u32 = vk::any();
        if d2 >= dist { assert!(LZMAEncoder::get_dist_slot(d2) >= slot); }
        // the end marker distance 0xFFFFFFFF uses the last slot with all footer bits set
        assert!(LZMAEncoder::get_dist_slot(u32::MAX) == 63);
    }

    /// C01.sym: length -> distance-state mapping shared by encoder and decoder: min(len-2, 3) for every match length
    #[kani::proof]
    #[kani::unwind(2)]
    fn c01_dist_state() {
        let len: u32 = vk::any();
        vk::assume(len >= 2 && len <= 273);
        let want = if len - 2 < 3 { len - 2 } else { 3 };
        assert!(crate::get_dist_state(len) == want);
        assert!(crate::coder_get_dict_size(len as usize) == want as usize);
    }

    // ---------------------------------------------------------------- symbol grammar mirror over the bit channel
    /// C01.sym.len: LengthEncoder::encode -> LengthCoder::decode over the bit channel, for every length 2..=273 and the
    /// given pos_state: the decoder returns the length, reads exactly the slots the encoder wrote, in the same order,
    /// and consumes every event.
    fn sym_len_mirror(pos_state: u32) {
        let len: u32 = vk::any();
        vk::assume(len >= 2 && len <= 273);
        sym_len_mirror_len(pos_state, len);
        crate::vcover!(len == 273);
        crate::vcover!(len == 9);
    }
    fn sym_len_mirror_len(pos_state: u32, len: u32) {
        let mut e = LengthEncoder::new(4, 273);
        e.coder = vk::TAGGED_LEN_1000;
        let mut d = vk::TAGGED_LEN_1000;
        vk::ch_reset();
        let mut rce = RangeEncoder::new(vk::Sink::<4>::new());
        assert!(e.encode(len, pos_state, &mut rce).is_ok());
        let mut rcd = crate::range_dec::verif_kani::mk_decoder(vk::Src::<1>::new([0], 0), 0, 0);
        let got = crate::decoder::verif_kani::len_decode(&mut d, pos_state as usize, &mut rcd);
        assert!(got as u32 == len);
        assert!(vk::ch_drained());
    }
    #[kani::proof]
    #[kani::unwind(18)]
    //@ERR
    //@BITCHAN
    fn c01_sym_len_ps0() { sym_len_mirror(0); }
    #[kani::proof]
    #[kani::unwind(18)]
    //@ERR
    //@BITCHAN
    fn c01_sym_len_ps5() { sym_len_mirror(5); }
    #[kani::proof]
    #[kani::unwind(18)]
    //@ERR
    //@BITCHAN
    fn c01_sym_len_ps15() { sym_len_mirror(15); }
