    // ===== src/enc/range_enc.rs =====
    use crate::range_dec::verif_kani::{dec_state, mk_stream_decoder};

    /// C01.rc.step / C16.rc.step (lockstep of one modelled bit): for every range >= 2^24, every probability in (0, 2^11),
    /// every decoder code < range: encoding bit b := (code >= bound) and decoding it give the same bit, the same updated
    /// probability (which stays inside [31, 2^11-31] once there), the same range (the encoder renormalises eagerly, the
    /// decoder lazily: enc.range = dec.range << 8 iff dec.range < 2^24, and that is exactly when the encoder calls
    /// shift_low, i.e. when the decoder will pull one more byte), the decoder keeps code < range, and the encoder's `low`
    /// advances by exactly what the decoder subtracts from `code`.
    #[kani::proof]
    #[kani::unwind(4)]
    //@ERR
    fn c01_rc_step_lockstep() {
        let range: u32 = vk::any();
        let prob: u16 = vk::any();
        let code: u32 = vk::any();
        let low: u64 = vk::any();
        vk::assume(range >= 0x0100_0000 && prob >= 1 && (prob as u32) < BIT_MODEL_TOTAL && code < range);
        vk::assume(low < (1u64 << 32));
        let bound = (range >> BIT_MODEL_TOTAL_BITS) * prob as u32;
        let bit = (code >= bound) as u32;
        let mut e = RangeEncoder::new(vk::Sink::<4>::new());
        e.low = low;
        e.range = range;
        let mut pe = [prob];
        assert!(e.encode_bit(&mut pe, 0, bit).is_ok());
        let mut d = mk_stream_decoder(range, code, vk::Src::<1>::new([0], 0));
        let mut pd = prob;
        let got = d.decode_bit(&mut pd);
        let (dr, dc) = dec_state(&d);
        assert!(got as u32 == bit);
        assert!(pd == pe[0]);
        assert!(dc < dr);
        if dr < 0x0100_0000 { assert!(e.range == dr << 8); } else { assert!(e.range == dr); }
        // under the probability invariant one renormalisation step is enough on both sides
        let prob_inv = prob >= 31 && prob as u32 <= BIT_MODEL_TOTAL - 31;
        if prob_inv { assert!(dr >= 1 << 16 && e.range >= 0x0100_0000); }
        // encoder's interval base moved by what the decoder removed from code
        let delta = (code - dc) as u64;
        if dr < 0x0100_0000 {
            assert!(e.low == (((low + delta) & 0x00FF_FFFF) << 8));
            assert!(e.cache_size + e.inner.len as u32 == 2);     // exactly one shift_low: one more byte accounted for
        } else {
            assert!(e.low == low + delta);
            assert!(e.cache_size == 1 && e.inner.len == 0);
        }
        if prob >= 31 && prob as u32 <= BIT_MODEL_TOTAL - 31 { assert!(pd >= 31 && pd as u32 <= BIT_MODEL_TOTAL - 31); }
        crate::vcover!(bit == 1 && dr < 0x0100_0000);
        crate::vcover!(bit == 0 && dr >= 0x0100_0000);
    }

    /// C01.rc.direct: one direct bit: encoder halves the range and adds it to low for a 1 bit; the decoder (reference loop
    /// proved equal to decode_direct_bits in c01_rc_decode_direct_bits) sees bit = (code >= range/2).
    #[kani::proof]
    #[kani::unwind(4)]
    //@ERR
    fn c01_rc_direct_lockstep() {
        let range: u32 = vk::any();
        let low: u64 = vk::any();
        let bit: u32 = vk::any();
        vk::assume(range >= 0x0100_0000 && low < (1u64 << 32) && bit <= 1);
        let mut e = RangeEncoder::new(vk::Sink::<4>::new());
        e.low = low;
        e.range = range;
        assert!(e.encode_direct_bits(bit, 1).is_ok());
        let half = range >> 1;
        let nl = low + if bit == 1 { half as u64 } else { 0 };
        if half < 0x0100_0000 {
            assert!(e.range == half << 8 && e.low == ((nl & 0x00FF_FFFF) << 8));
        } else {
            assert!(e.range == half && e.low == nl);
        }
    }

    /// C01.rc.flush / C16.rc.count: byte accounting of shift_low and finish: every shift_low accounts for exactly one
    /// output byte (emitted now or pending in cache_size), `low` stays below 2^32 afterwards, and `finish` emits exactly
    /// cache_size + 4 bytes = what get_pending_size() announced; no cache_size underflow.
    #[kani::proof]
    #[kani::unwind(8)]
    //@ERR
    fn c01_rc_shift_low_accounting() {
        let low: u64 = vk::any();
        let cs: u32 = vk::any();
        let cache: u8 = vk::any();
        vk::assume(low < (1u64 << 32) + (1u64 << 32) && cs >= 1 && cs <= 4);
        let mut e = RangeEncoder::new(vk::Sink::<16>::new());
        e.low = low;
        e.cache_size = cs;
        e.cache = cache;
        assert!(e.shift_low().is_ok());
        assert!(e.inner.len as u32 + e.cache_size == cs + 1);
        assert!(e.cache_size >= 1);
        assert!(e.low < (1u64 << 32));
        // carry propagates into the bytes emitted
        if e.inner.len > 0 { assert!(e.inner.buf[0] == cache.wrapping_add((low >> 32) as u8)); }
    }
    fn rc_finish_count(cs: u32) {
        let low: u64 = vk::any();
        vk::assume(low < (1u64 << 32) + (1u64 << 24));
        let mut e = RangeEncoder::new_buffer(16);
        e.low = low;
        e.cache_size = cs;
        e.cache = vk::any();
        let announced = e.get_pending_size();
        let r = e.finish_buffer();
        assert!(matches!(r, Ok(Some(n)) if n as u32 == announced && n as u32 == cs + 4));
        assert!(e.cache_size == 1 && e.low == 0);
        e.reset_buffer();
        assert!(e.inner.pos == 0 && e.low == 0 && e.range == 0xFFFF_FFFF && e.cache_size == 1 && e.cache == 0);
        assert!(e.get_pending_size() == 5);
    }
    #[kani::proof]
    #[kani::unwind(7)]
    //@ERR
    fn c16_rc_finish_count_1() { rc_finish_count(1); }
    #[kani::proof]
    #[kani::unwind(7)]
    //@ERR
    fn c16_rc_finish_count_3() { rc_finish_count(3); }

    /// scaffolding for LZMA2 writer harnesses: a buffer range encoder that already holds `n` pending compressed bytes
    pub(crate) fn mk_buffer_encoder(cap: usize, n: usize, fill: u8) -> RangeEncoder<RangeEncoderBuffer> {
        let mut e = RangeEncoder::new_buffer(cap);
        let mut i = 0;
        while i < n { e.inner.buf[i] = fill; i += 1; }
        e.inner.pos = n;
        e
    }

    // ---- bit-channel stubs for the encoder side (see kani/lib.rs)
    pub(crate) fn enc_bit_stub<W: Write>(_s: &mut RangeEncoder<W>, probs: &mut [u16], index: usize, bit: u32) -> crate::Result<()> {
        assert!(index < probs.len());
        crate::vk::ch_put(crate::vk::ch_enc_slot(probs.as_ptr() as usize + 2 * index), (bit != 0) as u32);   // encode_bit treats every non-zero `bit` as 1
        Ok(())
    }
    pub(crate) fn enc_direct_stub<W: Write>(_s: &mut RangeEncoder<W>, value: u32, count: u32) -> crate::Result<()> {
        crate::vk::ch_put(crate::vk::CH_DIRECT | count, value & ((1u32 << count) - 1));
        Ok(())
    }
