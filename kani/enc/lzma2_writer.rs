    // ===== src/enc/lzma2_writer.rs =====

    /// contract stub for LZMA2Writer::new used by container-level harnesses (payload layer by contract): the object is
    /// never driven by those harnesses; its storage is zeroed except `inner`/`options` and must be forgotten, never dropped.
    pub(crate) fn lzma2_new_zeroed<W: Write>(inner: W, options: LZMA2Options) -> LZMA2Writer<W> {
        unsafe {
            let mut m = core::mem::MaybeUninit::<LZMA2Writer<W>>::zeroed();
            let p = m.as_mut_ptr();
            core::ptr::addr_of_mut!((*p).inner).write(inner);
            core::ptr::addr_of_mut!((*p).options).write(options);
            m.assume_init()
        }
    }

    // ---- payload-layer contract of LZMA2Writer as seen by a container: `write` accepts every byte it is given,
    //      `finish` appends n >= 1 bytes to the inner writer and returns it. Ghost state records what each payload got.
    use crate::vk::{PL_BLOCKS, PL_CUR_IN, PL_EMIT, PL_N};
    /// LZEncoder::fill_window by contract: the window accepts all bytes offered (ghost count); with
    /// `encode_for_lzma2 -> Ok(false)` ("nothing to emit yet") the real LZMA2Writer::write loop runs unchanged.
    pub(crate) fn fill_window_stub(_s: &mut crate::enc::lz::LZEncoder, input: &[u8]) -> usize {
        unsafe { PL_CUR_IN += input.len() as u64; }
        input.len()
    }
    pub(crate) fn encode_for_lzma2_stub(
        _s: &mut LZMAEncoder,
        _rc: &mut RangeEncoder<RangeEncoderBuffer>,
        _mode: &mut dyn crate::enc::encoder::LZMAEncoderTrait,
    ) -> crate::Result<bool> {
        Ok(false)
    }
    pub(crate) fn lzma2_finish_stub<W: Write>(s: LZMA2Writer<W>) -> crate::Result<W> {
        unsafe {
            let mut s = core::mem::ManuallyDrop::new(s);
            let mut inner = core::ptr::read(&s.inner);
            core::ptr::drop_in_place(&mut s.options);
            assert!(PL_N < 4);
            PL_BLOCKS[PL_N] = PL_CUR_IN;
            PL_N += 1;
            PL_CUR_IN = 0;
            let data = [0xAAu8; 4];
            inner.write_all(&data[..PL_EMIT])?;
            Ok(inner)
        }
    }
    pub(crate) fn lzma2_write_chunk_stub<W: Write>(_s: &mut LZMA2Writer<W>) -> crate::Result<()> { Ok(()) }
    pub(crate) fn lzma2_start_independent_stub<W: Write>(_s: &mut LZMA2Writer<W>) -> crate::Result<()> { Ok(()) }
    pub(crate) fn lz_noop_stub(_s: &mut crate::enc::lz::LZEncoder) {}
