    // ===== src/enc/lzma2_writer.rs =====

    /// contract stub for LZMA2Writer::new used by container-level harnesses (payload layer by contract): the object is
    /// never driven by those harnesses; its storage is zeroed except `inner`/`options` and must be forgotten, never dropped.
    pub(crate) fn lzma2_new_zeroed<W: Write>(inner: W, options: LZMA2Options) -> LZMA2Writer<W> {
        unsafe {
            let mut m = core::mem::MaybeUninit::<LZMA2Writer<W>>::zeroed();
            let p = m.as_mut_ptr();
            core::ptr::addr_of_mut!((*p).inner).write(inner);
            core::ptr::addr_of_mut!((*p).options).write(options);
            m.assume_init()
        }
    }

    // ---- payload-layer contract of LZMA2Writer as seen by a container: `write` accepts every byte it is given,
    //      `finish` appends n >= 1 bytes to the inner writer and returns it. Ghost state records what each payload got.
    use crate::vk::{PL_BLOCKS, PL_CUR_IN, PL_EMIT, PL_N};
    /// LZEncoder::fill_window by contract: the window accepts all bytes offered (ghost count); with
    /// `encode_for_lzma2 -> Ok(false)` ("nothing to emit yet") the real LZMA2Writer::write loop runs unchanged.
    pub(crate) fn fill_window_stub(_s: &mut crate::enc::lz::LZEncoder, input: &[u8]) -> usize {
        unsafe { PL_CUR_IN += input.len() as u64; }
        input.len()
    }
    pub(crate) fn encode_for_lzma2_stub(
        _s: &mut LZMAEncoder,
        _rc: &mut RangeEncoder<RangeEncoderBuffer>,
        _mode: &mut dyn crate::enc::encoder::LZMAEncoderTrait,
    ) -> crate::Result<bool> {
        Ok(false)
    }
    pub(crate) fn lzma2_finish_stub<W: Write>(s: LZMA2Writer<W>) -> crate::Result<W> {
        unsafe {
            let mut s = core::mem::ManuallyDrop::new(s);
            let mut inner = core::ptr::read(&s.inner);
            core::ptr::drop_in_place(&mut s.options);
            assert!(PL_N < 4);
            PL_BLOCKS[PL_N] = PL_CUR_IN;
            PL_N += 1;
            PL_CUR_IN = 0;
            let data = [0xAAu8; 4];
            inner.write_all(&data[..PL_EMIT])?;
            Ok(inner)
        }
    }
    pub(crate) fn lzma2_write_chunk_stub<W: Write>(_s: &mut LZMA2Writer<W>) -> crate::Result<()> { Ok(()) }
    pub(crate) fn lzma2_start_independent_stub<W: Write>(_s: &mut LZMA2Writer<W>) -> crate::Result<()> { Ok(()) }
    pub(crate) fn lz_noop_stub(_s: &mut crate::enc::lz::LZEncoder) {}

    // ---- LZMA2Writer chunk-level contract used by the MT worker harnesses (kani/enc/lzma2_writer_mt.rs)
    pub(crate) static mut WK_NEW: u32 = 0;
    /// LZMA2Writer by contract, chunk level (the real chunk protocol is C01.l2.w): a new writer announces a dictionary
    /// reset with its first chunk (no preset dictionary in a worker), later chunks of the same writer do not; `write`
    /// accepts every byte (fill_window stub under the real write loop); each write_chunk emits one byte
    /// (0xE0 | n) or (0x80 | n) where n = bytes this chunk covers, and clears the pending count.
    pub(crate) fn wk_new<W: Write>(inner: W, options: LZMA2Options) -> LZMA2Writer<W> {
        unsafe { WK_NEW += 1; }
        assert!(options.lzma_options.preset_dict.is_none(), "worker units must not inherit the preset dictionary");
        let mut w = lzma2_new_zeroed(inner, options);
        w.dict_reset_needed = true;
        w.state_reset_needed = true;
        w.props_needed = true;
        w
    }
    pub(crate) fn wk_write_chunk<W: Write>(s: &mut LZMA2Writer<W>) -> crate::Result<()> {
        assert!(s.pending_size > 0 && s.pending_size < 16);
        let tag = if s.dict_reset_needed { 0xE0u8 } else { 0x80u8 };
        s.inner.write_all(&[tag | s.pending_size as u8])?;
        s.dict_reset_needed = false;
        s.state_reset_needed = false;
        s.props_needed = false;
        s.uncompressed_size += s.pending_size as u64;
        s.pending_size = 0;
        Ok(())
    }
    pub(crate) fn wk_start_independent<W: Write>(s: &mut LZMA2Writer<W>) -> crate::Result<()> {
        if s.pending_size > 0 { wk_write_chunk(s)?; }
        s.dict_reset_needed = true;
        s.state_reset_needed = true;
        s.props_needed = true;
        s.uncompressed_size = 0;
        Ok(())
    }


    /// C17.enc: LZMAOptions::get_memory_usage (KiB) for every dictionary size 4 KiB..1 GiB, both modes, both match
    /// finders: no overflow; estimate >= window buffer + hash tables + chain/tree + optimum table (the allocations of
    /// LZEncoder::new, Hash234::new, HC4/BT4::new, NormalEncoderMode::new) and <= that sum + 1/8 + 512 KiB.
    #[kani::proof]
    #[kani::unwind(2)]
    fn c17_enc_estimator() {
        let d: u32 = vk::any();
        vk::assume(d >= 4096 && d <= 1 << 30);
        let fast: bool = vk::any();
        let hc: bool = vk::any();
        let o = LZMAOptions { dict_size: d, lc: 3, lp: 0, pb: 2, mode: if fast { EncodeMode::Fast } else { EncodeMode::Normal },
            nice_len: 64, mf: if hc { MFType::HC4 } else { MFType::BT4 }, depth_limit: 0, preset_dict: None };
        let kib = o.get_memory_usage() as u64;
        let extra_before = core::cmp::max(get_extra_size_before(d), if fast { 1 } else { 4096 });
        let extra_after = if fast { 272 } else { 4096 };
        let buf = crate::vk::spec_buf_size(d, extra_before, extra_after, 273);
        let tables = 4 * ((1u64 << 10) + (1u64 << 16) + crate::vk::spec_hash4_size(d) as u64)
            + if hc { 4 * (d as u64 + 1) } else { 8 * (d as u64 + 1) };
        let opts = if fast { 0 } else { 4096u64 * 64 };
        let bytes = buf + tables + opts;
        assert!(kib * 1024 >= bytes);
        assert!(kib * 1024 <= bytes + bytes / 8 + 512 * 1024);
    }

    /// C19.props / C03.lzma.hdr: for every in-range (lc,lp,pb) the properties byte is (pb*5+lp)*9+lc <= 224, computed
    /// without truncation, and the readers' decomposition (pb = p/45, lp = (p%45)/9, lc = p%9) recovers the triple.
    #[kani::proof]
    #[kani::unwind(2)]
    fn c19_props_roundtrip() {
        let lc: u32 = vk::any();
        let lp: u32 = vk::any();
        let pb: u32 = vk::any();
        vk::assume(lc <= 8 && lp <= 4 && pb <= 4);
        let o = LZMAOptions { dict_size: 4096, lc, lp, pb, mode: EncodeMode::Fast, nice_len: 32, mf: MFType::HC4, depth_limit: 0, preset_dict: None };
        let p = o.get_props();
        assert!(p as u32 == (pb * 5 + lp) * 9 + lc && p <= 224);
        assert!((p / 45) as u32 == pb && ((p % 45) / 9) as u32 == lp && (p % 9) as u32 == lc);
    }
    /// C18.clamp / C19: presets 0..9 produce in-range options; dictionary sizes are powers of two >= 256 KiB
    #[kani::proof]
    #[kani::unwind(2)]
    fn c19_presets_in_range() {
        let preset: u32 = vk::any();
        let o = LZMAOptions::with_preset(preset);
        assert!(o.lc + o.lp <= 4 && o.pb <= 4);
        assert!(o.dict_size >= 1 << 18 && o.dict_size <= 1 << 26 && o.dict_size & (o.dict_size - 1) == 0);
        assert!(o.nice_len >= LZMAOptions::NICE_LEN_MIN && o.nice_len <= LZMAOptions::NICE_LEN_MAX);
        assert!(o.depth_limit >= 0 && o.preset_dict.is_none());
        assert!(get_extra_size_before(o.dict_size) == 0);
        let d: u32 = vk::any();
        assert!(get_extra_size_before(d) as u64 + d as u64 >= 65536 || d >= 65536);
    }

    // ---------------------------------------------------------------- LZMA2 chunk protocol, writer side
    static mut COPY_LOG: [(i32, usize); 4] = [(0, 0); 4];
    static mut COPY_N: usize = 0;
    /// LZEncoderData::copy_uncompressed by contract: "writes buf[read_pos+1-backward ..][..len] to out"; here only the
    /// arguments are recorded (the data movement itself is C01.lze.win).
    fn copy_uncompressed_stub<W: Write>(_s: &crate::enc::lz::LZEncoderData, _out: &mut W, backward: i32, len: usize) -> crate::Result<()> {
        unsafe { assert!(COPY_N < 4); COPY_LOG[COPY_N] = (backward, len); COPY_N += 1; }
        Ok(())
    }
    fn mk_writer(props_needed: bool, dict_reset_needed: bool, state_reset_needed: bool, force: bool, pending_rc: usize,
                 lc: u32, lp: u32, pb: u32) -> LZMA2Writer<crate::vk::Sink<32>> {
        let o = LZMA2Options { lzma_options: LZMAOptions { dict_size: 4096, lc, lp, pb, mode: EncodeMode::Fast, nice_len: 32, mf: MFType::HC4,
            depth_limit: 0, preset_dict: None }, chunk_size: None };
        let mut w = lzma2_new_zeroed(crate::vk::Sink::<32>::new(), o);
        unsafe { core::ptr::write(&mut w.rc, super::super::range_enc::verif_kani::mk_buffer_encoder(8, pending_rc, 0xC5)); }
        w.props_needed = props_needed;
        w.dict_reset_needed = dict_reset_needed;
        w.state_reset_needed = state_reset_needed;
        w.force_independent_chunk = force;
        w
    }
    /// protocol invariant between chunks: an independent-chunk request is pending only together with the dictionary
    /// reset and new-properties requests it stands for
    fn proto_inv<W: Write>(w: &LZMA2Writer<W>) -> bool {
        !w.force_independent_chunk || (w.dict_reset_needed && w.props_needed)
    }

    /// C01.l2.hdr / C03.lzma2.valid / C01.l2.reset: write_lzma from every flag state satisfying the protocol invariant,
    /// every size pair and properties: header = control | be16(u-1) | be16(c-1) [| props], control = 0x80 + reset bits +
    /// high bits of u-1 exactly as the xz specification defines; the properties byte is present iff the control byte
    /// announces it; a dictionary reset is announced iff one is needed; the compressed payload follows; all requests cleared.
    #[kani::proof]
    #[kani::unwind(10)]
    //@ERR
    fn c01_l2_write_lzma() {
        let (pn, dn, sn, f): (bool, bool, bool, bool) = (vk::any(), vk::any(), vk::any(), vk::any());
        let (lc, lp, pb): (u32, u32, u32) = (vk::any(), vk::any(), vk::any());
        vk::assume(lc <= 4 && lp <= 4 && lc + lp <= 4 && pb <= 4);
        let k: usize = 3;
        let mut w = mk_writer(pn, dn, sn, f, k, lc, lp, pb);
        vk::assume(proto_inv(&w));
        // a dictionary reset always comes with new properties (decoder requires them after a reset)
        vk::assume(!dn || pn);
        let u: u32 = vk::any();
        let c: u32 = vk::any();
        vk::assume(u >= 1 && u <= 1 << 21 && c >= 1 && c <= 1 << 16);
        assert!(w.write_lzma(u, c).is_ok());
        let b = &w.inner.buf;
        let reset_bits: u8 = if pn { if dn { 3 } else { 2 } } else if sn { 1 } else { 0 };
        assert!(b[0] == 0x80 | (reset_bits << 5) | (((u - 1) >> 16) as u8));
        assert!(b[1] == ((u - 1) >> 8) as u8 && b[2] == (u - 1) as u8);
        assert!(b[3] == ((c - 1) >> 8) as u8 && b[4] == (c - 1) as u8);
        let hdr = if pn { 6 } else { 5 };
        if pn { assert!(b[5] as u32 == (pb * 5 + lp) * 9 + lc); }
        assert!(w.inner.len == hdr + k);
        let mut i = 0;
        while i < 6 { if i < k { assert!(b[hdr + i] == 0xC5); } i += 1; }
        assert!(!w.props_needed && !w.dict_reset_needed && !w.state_reset_needed && !w.force_independent_chunk);
        crate::vcover!(reset_bits == 3);
        crate::vcover!(reset_bits == 0);
        core::mem::forget(w);
    }

    /// C01.l2.hdr / C01.l2.reset (D6): write_uncompressed for 1..=3 chunks' worth of data from every flag state satisfying
    /// the protocol invariant: per 64 KiB piece a header 0x01 (first piece when a dictionary reset is needed) or 0x02,
    /// be16(size-1), then that piece copied from the window (pieces contiguous, in order, covering exactly the data);
    /// afterwards a state reset is requested, the dictionary-reset request is satisfied, and the protocol invariant
    /// still holds (an independent-chunk request that was pending has been honoured by the 0x01 chunk).
    #[kani::proof]
    #[kani::unwind(6)]
    //@ERR
    #[kani::stub(crate::enc::lz::LZEncoderData::copy_uncompressed, copy_uncompressed_stub)]
    fn c01_l2_write_uncompressed() {
        let (pn, dn, sn, f): (bool, bool, bool, bool) = (vk::any(), vk::any(), vk::any(), vk::any());
        let mut w = mk_writer(pn, dn, sn, f, 0, 3, 0, 2);
        vk::assume(proto_inv(&w));
        let u: u32 = vk::any();
        vk::assume(u >= 1 && u <= 3 * 65536);
        unsafe { COPY_N = 0; }
        assert!(w.write_uncompressed(u).is_ok());
        let pieces = ((u + 65535) / 65536) as usize;
        assert!(unsafe { COPY_N } == pieces && w.inner.len == 3 * pieces);
        let mut left = u;
        let mut i = 0;
        while i < 3 {
            if i < pieces {
                let sz = if left < 65536 { left } else { 65536 };
                let h = &w.inner.buf[3 * i..3 * i + 3];
                assert!(h[0] == if i == 0 && dn { 0x01 } else { 0x02 });
                assert!(h[1] == ((sz - 1) >> 8) as u8 && h[2] == (sz - 1) as u8);
                assert!(unsafe { COPY_LOG[i] } == (left as i32, sz as usize));
                left -= sz;
            }
            i += 1;
        }
        assert!(left == 0);
        assert!(w.state_reset_needed && !w.dict_reset_needed && w.props_needed == pn);
        assert!(proto_inv(&w), "independent-chunk request still pending after the dictionary reset it asked for was emitted");
        core::mem::forget(w);
    }

    /// C18.clamp / C01.l2.reset: LZMA2Writer::new: first chunk resets the dictionary unless a preset dictionary is
    /// given, properties and state reset are requested, chunk size is raised to the dictionary size.
    #[kani::proof]
    #[kani::unwind(4)]
    //@ERR
    #[kani::stub(crate::enc::encoder::LZMAEncoder::new, enc_new_zeroed)]
    fn c01_l2_new_flags() {
        let cs: u64 = vk::any();
        let o = LZMA2Options { lzma_options: LZMAOptions { dict_size: 8192, lc: 3, lp: 0, pb: 2, mode: EncodeMode::Fast, nice_len: 32, mf: MFType::HC4,
            depth_limit: 0, preset_dict: None }, chunk_size: NonZeroU64::new(cs) };
        let w = LZMA2Writer::new(crate::vk::Sink::<4>::new(), o);
        assert!(w.dict_reset_needed && w.state_reset_needed && w.props_needed && !w.force_independent_chunk);
        assert!(w.pending_size == 0 && w.uncompressed_size == 0);
        assert!(w.chunk_size == if cs == 0 { None } else { Some(if cs < 8192 { 8192 } else { cs }) });
        assert!(!w.should_start_independent_chunk());
        core::mem::forget(w);
    }
    fn enc_new_zeroed(_mode: EncodeMode, _lc: u32, _lp: u32, _pb: u32, _mf: MFType, _depth: i32, _dict: u32, _nice: usize) -> (LZMAEncoder, LZMAEncoderModes) {
        unsafe { core::mem::MaybeUninit::<(LZMAEncoder, LZMAEncoderModes)>::zeroed().assume_init() }
    }
