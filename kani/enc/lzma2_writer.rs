    // ===== src/enc/lzma2_writer.rs =====

    /// contract stub for LZMA2Writer::new used by container-level harnesses (payload layer by contract): the object is
    /// never driven by those harnesses; its storage is zeroed except `inner`/`options` and must be forgotten, never dropped.
    pub(crate) fn lzma2_new_zeroed<W: Write>(inner: W, options: LZMA2Options) -> LZMA2Writer<W> {
        unsafe {
            let mut m = core::mem::MaybeUninit::<LZMA2Writer<W>>::zeroed();
            let p = m.as_mut_ptr();
            core::ptr::addr_of_mut!((*p).inner).write(inner);
            core::ptr::addr_of_mut!((*p).options).write(options);
            m.assume_init()
        }
    }

    // ---- payload-layer contract of LZMA2Writer as seen by a container: `write` accepts every byte it is given,
    //      `finish` appends n >= 1 bytes to the inner writer and returns it. Ghost state records what each payload got.
    use crate::vk::{PL_BLOCKS, PL_CUR_IN, PL_EMIT, PL_N};
    /// LZEncoder::fill_window by contract: the window accepts all bytes offered (ghost count); with
    /// `encode_for_lzma2 -> Ok(false)` ("nothing to emit yet") the real LZMA2Writer::write loop runs unchanged.
    pub(crate) fn fill_window_stub(_s: &mut crate::enc::lz::LZEncoder, input: &[u8]) -> usize {
        unsafe { PL_CUR_IN += input.len() as u64; }
        input.len()
    }
    pub(crate) fn encode_for_lzma2_stub(
        _s: &mut LZMAEncoder,
        _rc: &mut RangeEncoder<RangeEncoderBuffer>,
        _mode: &mut dyn crate::enc::encoder::LZMAEncoderTrait,
    ) -> crate::Result<bool> {
        Ok(false)
    }
    pub(crate) fn lzma2_finish_stub<W: Write>(s: LZMA2Writer<W>) -> crate::Result<W> {
        unsafe {
            let mut s = core::mem::ManuallyDrop::new(s);
            let mut inner = core::ptr::read(&s.inner);
            core::ptr::drop_in_place(&mut s.options);
            assert!(PL_N < 4);
            PL_BLOCKS[PL_N] = PL_CUR_IN;
            PL_N += 1;
            PL_CUR_IN = 0;
            let data = [0xAAu8; 4];
            inner.write_all(&data[..PL_EMIT])?;
            Ok(inner)
        }
    }
    pub(crate) fn lzma2_write_chunk_stub<W: Write>(_s: &mut LZMA2Writer<W>) -> crate::Result<()> { Ok(()) }
    pub(crate) fn lzma2_start_independent_stub<W: Write>(_s: &mut LZMA2Writer<W>) -> crate::Result<()> { Ok(()) }
    pub(crate) fn lz_noop_stub(_s: &mut crate::enc::lz::LZEncoder) {}

    /// C17.enc: LZMAOptions::get_memory_usage (KiB) for every dictionary size 4 KiB..1 GiB, both modes, both match
    /// finders: no overflow; estimate >= window buffer + hash tables + chain/tree + optimum table (the allocations of
    /// LZEncoder::new, Hash234::new, HC4/BT4::new, NormalEncoderMode::new) and <= that sum + 1/8 + 512 KiB.
    #[kani::proof]
    #[kani::unwind(2)]
    fn c17_enc_estimator() {
        let d: u32 = vk::any();
        vk::assume(d >= 4096 && d <= 1 << 30);
        let fast: bool = vk::any();
        let hc: bool = vk::any();
        let o = LZMAOptions { dict_size: d, lc: 3, lp: 0, pb: 2, mode: if fast { EncodeMode::Fast } else { EncodeMode::Normal },
            nice_len: 64, mf: if hc { MFType::HC4 } else { MFType::BT4 }, depth_limit: 0, preset_dict: None };
        let kib = o.get_memory_usage() as u64;
        let extra_before = core::cmp::max(get_extra_size_before(d), if fast { 1 } else { 4096 });
        let extra_after = if fast { 272 } else { 4096 };
        let buf = crate::vk::spec_buf_size(d, extra_before, extra_after, 273);
        let tables = 4 * ((1u64 << 10) + (1u64 << 16) + crate::vk::spec_hash4_size(d) as u64)
            + if hc { 4 * (d as u64 + 1) } else { 8 * (d as u64 + 1) };
        let opts = if fast { 0 } else { 4096u64 * 64 };
        let bytes = buf + tables + opts;
        assert!(kib * 1024 >= bytes);
        assert!(kib * 1024 <= bytes + bytes / 8 + 512 * 1024);
    }

    /// C19.props / C03.lzma.hdr: for every in-range (lc,lp,pb) the properties byte is (pb*5+lp)*9+lc <= 224, computed
    /// without truncation, and the readers' decomposition (pb = p/45, lp = (p%45)/9, lc = p%9) recovers the triple.
    #[kani::proof]
    #[kani::unwind(2)]
    fn c19_props_roundtrip() {
        let lc: u32 = vk::any();
        let lp: u32 = vk::any();
        let pb: u32 = vk::any();
        vk::assume(lc <= 8 && lp <= 4 && pb <= 4);
        let o = LZMAOptions { dict_size: 4096, lc, lp, pb, mode: EncodeMode::Fast, nice_len: 32, mf: MFType::HC4, depth_limit: 0, preset_dict: None };
        let p = o.get_props();
        assert!(p as u32 == (pb * 5 + lp) * 9 + lc && p <= 224);
        assert!((p / 45) as u32 == pb && ((p % 45) / 9) as u32 == lp && (p % 9) as u32 == lc);
    }
    /// C18.clamp / C19: presets 0..9 produce in-range options; dictionary sizes are powers of two >= 256 KiB
    #[kani::proof]
    #[kani::unwind(2)]
    fn c19_presets_in_range() {
        let preset: u32 = vk::any();
        let o = LZMAOptions::with_preset(preset);
        assert!(o.lc + o.lp <= 4 && o.pb <= 4);
        assert!(o.dict_size >= 1 << 18 && o.dict_size <= 1 << 26 && o.dict_size & (o.dict_size - 1) == 0);
        assert!(o.nice_len >= LZMAOptions::NICE_LEN_MIN && o.nice_len <= LZMAOptions::NICE_LEN_MAX);
        assert!(o.depth_limit >= 0 && o.preset_dict.is_none());
        assert!(get_extra_size_before(o.dict_size) == 0);
        let d: u32 = vk::any();
        assert!(get_extra_size_before(d) as u64 + d as u64 >= 65536 || d >= 65536);
    }
