    // ===== src/enc/lzma2_writer_mt.rs : coordinator (sequential part) =====

    pub(crate) static mut SPAWNED: u32 = 0;
    /// thread::spawn is outside Kani (reachable thread::spawn aborts the tool): ghost counter + the handle bookkeeping is
    /// not modelled (worker_handles keeps its length; the bound spawned <= max_workers is checked on the ghost counter).
    pub(crate) fn spawn_stub<W: Write>(_s: &mut LZMA2WriterMT<W>) { unsafe { SPAWNED += 1; } }
    fn fmt_stub(_a: core::fmt::Arguments<'_>) -> String { String::new() }
    /// scaffolding: a coordinator object with real channel, queue, error store and flags; no worker thread exists, the
    /// harness plays the workers by sending results through a clone of the real result sender.
    fn mk_writer(chunk_size: usize, max_workers: u32) -> core::mem::ManuallyDrop<LZMA2WriterMT<vk::Sink<16>>> {
        let (result_tx, result_rx) = mpsc::channel::<ResultUnit>();
        unsafe {
            let mut m = core::mem::MaybeUninit::<LZMA2WriterMT<vk::Sink<16>>>::zeroed();
            let p = m.as_mut_ptr();
            core::ptr::addr_of_mut!((*p).inner).write(Some(vk::Sink::<16>::new()));
            core::ptr::addr_of_mut!((*p).chunk_size).write(chunk_size);
            core::ptr::addr_of_mut!((*p).result_rx).write(result_rx);
            core::ptr::addr_of_mut!((*p).result_tx).write(result_tx);
            core::ptr::addr_of_mut!((*p).current_work_unit).write(Vec::new());
            core::ptr::addr_of_mut!((*p).next_sequence_to_dispatch).write(0);
            core::ptr::addr_of_mut!((*p).next_sequence_to_write).write(0);
            core::ptr::addr_of_mut!((*p).last_sequence_id).write(None);
            core::ptr::addr_of_mut!((*p).out_of_order_chunks).write(BTreeMap::new());
            core::ptr::addr_of_mut!((*p).shutdown_flag).write(Arc::new(AtomicBool::new(false)));
            core::ptr::addr_of_mut!((*p).error_store).write(Arc::new(Mutex::new(None)));
            core::ptr::addr_of_mut!((*p).state).write(State::Writing);
            core::ptr::addr_of_mut!((*p).work_queue).write(WorkStealingQueue::new());
            core::ptr::addr_of_mut!((*p).active_workers).write(Arc::new(AtomicU32::new(0)));
            core::ptr::addr_of_mut!((*p).max_workers).write(max_workers);
            core::ptr::addr_of_mut!((*p).worker_handles).write(Vec::new());
            core::mem::ManuallyDrop::new(m.assume_init())
        }
    }

    /// C08.order.w (LZMA2 writer): 3 units were dispatched and finish() is draining. The workers' results sit in the ghost
    /// channel; every receive hands out ANY of them (all completion orders): the coordinator returns the compressed units
    /// in sequence order, each exactly once, reports the end only after the last one, and never waits for a result that
    /// nobody owes.
    #[kani::proof]
    #[kani::unwind(8)]
    #[kani::stub(LZMA2WriterMT::spawn_worker_thread, spawn_stub)]
    #[kani::stub(alloc::fmt::format, fmt_stub)]
    //@CHAN
    // (map_any: Kani 0.68 rejects any stub for BTreeMap::remove / remove_entry, see DESIGN 0.2)
    fn c08_order_w_lzma2_finishing_n3() {
        vk::chan_init::<ResultUnit>();
        vk::map_init::<u64, Vec<u8>>();
        let mut w = mk_writer(8, 4);
        w.next_sequence_to_dispatch = 3;
        w.last_sequence_id = Some(2);
        w.state = State::Finishing;
        let mut s = 0u8;
        while s < 3 {
            let mut v = Vec::new();
            v.push(0xA0 + s);
            vk::chan_put::<ResultUnit>((s as u64, v));
            s += 1;
        }
        let mut k = 0u8;
        while k < 3 {
            let r = w.get_next_compressed_chunk(true);
            match r {
                Ok(Some(v)) => assert!(v.len() == 1 && v[0] == 0xA0 + k),
                _ => assert!(false, "result lost or out of order"),
            }
            k += 1;
        }
        assert!(w.next_sequence_to_write == 3);
        assert!(matches!(w.get_next_compressed_chunk(true), Ok(None)));
        assert!(matches!(w.state, State::Finished));
        assert!(unsafe { vk::CHAN_WOULD_BLOCK } == 0);
        assert!(vk::chan_len::<ResultUnit>() == 0 && vk::map_len::<u64, Vec<u8>>() == 0);
    }

    /// as c08_order_w_lzma2_finishing_n3 with 2 results and std's real BTreeMap as reorder buffer
    #[kani::proof]
    #[kani::unwind(8)]
    #[kani::stub(LZMA2WriterMT::spawn_worker_thread, spawn_stub)]
    #[kani::stub(alloc::fmt::format, fmt_stub)]
    //@CHAN
    fn c08_order_w_lzma2_finishing_n2_realmap() {
        vk::chan_init::<ResultUnit>();
        let mut w = mk_writer(8, 4);
        w.next_sequence_to_dispatch = 2;
        w.last_sequence_id = Some(1);
        w.state = State::Finishing;
        let mut s = 0u8;
        while s < 2 {
            let mut v = Vec::new();
            v.push(0xA0 + s);
            vk::chan_put::<ResultUnit>((s as u64, v));
            s += 1;
        }
        let mut k = 0u8;
        while k < 2 {
            let r = w.get_next_compressed_chunk(true);
            match r {
                Ok(Some(v)) => assert!(v.len() == 1 && v[0] == 0xA0 + k),
                _ => assert!(false, "result lost or out of order"),
            }
            k += 1;
        }
        assert!(w.next_sequence_to_write == 2);
        assert!(matches!(w.get_next_compressed_chunk(true), Ok(None)));
        assert!(matches!(w.state, State::Finished));
        assert!(unsafe { vk::CHAN_WOULD_BLOCK } == 0);
        assert!(vk::chan_len::<ResultUnit>() == 0);
    }

    // ---------------------------------------------------------------- worker logic, run sequentially (C08.worker / C13.fresh)
    fn notify_stub(_c: &std::sync::Condvar) {}
    use crate::enc::lzma2_writer::verif_kani::{wk_new, wk_write_chunk, wk_start_independent, WK_NEW};

    #[kani::proof]
    #[kani::unwind(4)]
    #[kani::stub(LZMA2Writer::new, wk_new)]
    #[kani::stub(LZMA2Writer::write_chunk, wk_write_chunk)]
    #[kani::stub(LZMA2Writer::start_independent_chunk, wk_start_independent)]
    #[kani::stub(crate::enc::lz::LZEncoder::fill_window, crate::enc::lzma2_writer::verif_kani::fill_window_stub)]
    #[kani::stub(crate::enc::lz::LZEncoder::set_flushing, crate::enc::lzma2_writer::verif_kani::lz_noop_stub)]
    #[kani::stub(crate::enc::encoder::LZMAEncoder::encode_for_lzma2, crate::enc::lzma2_writer::verif_kani::encode_for_lzma2_stub)]
    #[kani::stub(std::sync::Condvar::notify_one, notify_stub)]
    #[kani::stub(std::sync::Condvar::notify_all, notify_stub)]
    #[kani::stub(alloc::sync::Arc::drop_slow, vk::arc_leak_stub)]
    //@CHAN
    fn dbg_worker_one_unit() {
        vk::chan_init::<ResultUnit>();
        let q: WorkStealingQueue<WorkUnit> = WorkStealingQueue::new();
        let (tx, _rx) = mpsc::channel::<ResultUnit>();
        let _rx = core::mem::ManuallyDrop::new(_rx);
        let _tx2 = core::mem::ManuallyDrop::new(tx.clone());
        let mut d0 = Vec::new();
        d0.push(0x11);
        assert!(q.push((0, d0)));
        q.close();
        let o = LZMA2Options { lzma_options: crate::LZMAOptions { dict_size: 4096, lc: 3, lp: 0, pb: 2, mode: crate::EncodeMode::Fast, nice_len: 32, mf: crate::MFType::HC4,
            depth_limit: 0, preset_dict: None }, chunk_size: core::num::NonZeroU64::new(4096) };
        let shutdown = Arc::new(AtomicBool::new(false));
        let errs: Arc<Mutex<Option<io::Error>>> = Arc::new(Mutex::new(None));
        let active = Arc::new(AtomicU32::new(0));
        worker_thread_logic(q.worker(), tx, o, Arc::clone(&shutdown), Arc::clone(&errs), Arc::clone(&active));
        assert!(unsafe { vk::CHAN_SENT } == 1);
    }
    /// C08.worker / C13.fresh (LZMA2 writer): the worker loop run sequentially on a queue holding two units (then closed):
    /// for each unit exactly one result with the SAME sequence number is sent, its bytes are the encoding of exactly that
    /// unit's bytes and start with a dictionary-reset chunk (the unit is decodable on its own, wherever it lands in the
    /// output), the preset dictionary is not used for units, the busy counter returns to 0, no error is recorded.
    #[kani::proof]
    #[kani::unwind(4)]
    #[kani::stub(LZMA2Writer::new, wk_new)]
    #[kani::stub(LZMA2Writer::write_chunk, wk_write_chunk)]
    #[kani::stub(LZMA2Writer::start_independent_chunk, wk_start_independent)]
    #[kani::stub(crate::enc::lz::LZEncoder::fill_window, crate::enc::lzma2_writer::verif_kani::fill_window_stub)]
    #[kani::stub(crate::enc::lz::LZEncoder::set_flushing, crate::enc::lzma2_writer::verif_kani::lz_noop_stub)]
    #[kani::stub(crate::enc::encoder::LZMAEncoder::encode_for_lzma2, crate::enc::lzma2_writer::verif_kani::encode_for_lzma2_stub)]
    #[kani::stub(std::sync::Condvar::notify_one, notify_stub)]
    #[kani::stub(std::sync::Condvar::notify_all, notify_stub)]
    #[kani::stub(alloc::sync::Arc::drop_slow, vk::arc_leak_stub)]
    //@CHAN
    fn c08_worker_w_lzma2_two_units() {
        vk::chan_init::<ResultUnit>();
        unsafe { WK_NEW = 0; }
        let q: WorkStealingQueue<WorkUnit> = WorkStealingQueue::new();
        // the harness keeps (and forgets) one sender clone and the receiver: dropping the worker's sender then only
        // decrements the sender count (no disconnect / wake-up path, which Kani cannot execute)
        let (tx, _rx) = mpsc::channel::<ResultUnit>();
        let _rx = core::mem::ManuallyDrop::new(_rx);
        let _tx2 = core::mem::ManuallyDrop::new(tx.clone());
        let n0: usize = vk::any();
        let n1: usize = vk::any();
        vk::assume(n0 >= 1 && n0 <= 2 && n1 == 1);
        let s0: u64 = vk::any();
        let s1: u64 = vk::any();
        let mut d0 = Vec::new();
        let mut i = 0;
        while i < n0 { d0.push(0x11); i += 1; }
        let mut d1 = Vec::new();
        i = 0;
        while i < n1 { d1.push(0x22); i += 1; }
        assert!(q.push((s0, d0)) && q.push((s1, d1)));
        q.close();
        let o = LZMA2Options { lzma_options: crate::LZMAOptions { dict_size: 4096, lc: 3, lp: 0, pb: 2, mode: crate::EncodeMode::Fast, nice_len: 32, mf: crate::MFType::HC4,
            depth_limit: 0, preset_dict: None }, chunk_size: core::num::NonZeroU64::new(4096) };
        let shutdown = Arc::new(AtomicBool::new(false));
        let errs: Arc<Mutex<Option<io::Error>>> = Arc::new(Mutex::new(None));
        let active = Arc::new(AtomicU32::new(0));
        worker_thread_logic(q.worker(), tx, o, Arc::clone(&shutdown), Arc::clone(&errs), Arc::clone(&active));
        assert!(active.load(Ordering::Acquire) == 0);
        assert!(errs.lock().unwrap().is_none() && !shutdown.load(Ordering::Acquire));
        assert!(q.is_empty());
        assert!(unsafe { vk::CHAN_SENT } == 2);
        // the ghost channel fills its slots in send order
        let r0 = vk::chan_recv_stub::<ResultUnit>(&_rx);
        let r1 = vk::chan_recv_stub::<ResultUnit>(&_rx);
        let (a, b) = (r0.unwrap(), r1.unwrap());
        let (first, second) = if a.0 == s0 && a.1[0] & 0x0F == n0 as u8 { (a, b) } else { (b, a) };
        assert!(first.0 == s0 && second.0 == s1);
        assert!(first.1.len() == 1 && first.1[0] == 0xE0 | n0 as u8, "unit 0: not an independent encoding of exactly its bytes");
        assert!(second.1.len() == 1 && second.1[0] == 0xE0 | n1 as u8, "unit 1: not an independent encoding of exactly its bytes");
    }

    // ---------------------------------------------------------------- C10.bound / C10.drop / C18.clamp
    /// real constructor (thread::spawn by ghost counter) for EVERY requested worker count, then drop in ANY state of the
    /// shutdown flag (an error path - set_error - may have set it already):
    /// new: worker limit = clamp(n, 1, 256), exactly one worker started, unit size = max(configured, dictionary size);
    /// drop: flag set and work queue closed, so a worker blocked in steal() is released and every worker loop ends
    /// (steal returns None without waiting); drop performs no blocking call (it returns although no worker exists).
    #[kani::proof]
    #[kani::unwind(4)]
    #[kani::stub(LZMA2WriterMT::spawn_worker_thread, spawn_stub)]
    #[kani::stub(std::sync::Condvar::notify_one, notify_stub)]
    #[kani::stub(std::sync::Condvar::notify_all, notify_stub)]
    #[kani::stub(alloc::sync::Arc::drop_slow, vk::arc_leak_stub)]
    //@ERR
    fn c10_new_drop_w_lzma2_small() { c10_new_drop_w_lzma2_body(100); }
    #[kani::proof]
    #[kani::unwind(4)]
    #[kani::stub(LZMA2WriterMT::spawn_worker_thread, spawn_stub)]
    #[kani::stub(std::sync::Condvar::notify_one, notify_stub)]
    #[kani::stub(std::sync::Condvar::notify_all, notify_stub)]
    #[kani::stub(alloc::sync::Arc::drop_slow, vk::arc_leak_stub)]
    //@ERR
    fn c10_new_drop_w_lzma2_large() { c10_new_drop_w_lzma2_body(8192); }
    fn c10_new_drop_w_lzma2_body(cs: u64) {
        unsafe { SPAWNED = 0; }
        let n: u32 = vk::any();
        let o = LZMA2Options { lzma_options: crate::LZMAOptions { dict_size: 4096, lc: 3, lp: 0, pb: 2, mode: crate::EncodeMode::Fast, nice_len: 32, mf: crate::MFType::HC4,
            depth_limit: 0, preset_dict: None }, chunk_size: core::num::NonZeroU64::new(cs) };
        let w = match LZMA2WriterMT::new(vk::Sink::<16>::new(), o, n) { Ok(w) => w, Err(_) => { assert!(false, "valid options rejected"); return; } };
        assert!(w.max_workers >= 1 && w.max_workers <= 256);
        assert!(w.max_workers == if n < 1 { 1 } else if n > 256 { 256 } else { n });
        assert!(unsafe { SPAWNED } == 1, "exactly one worker is started by the constructor");
        assert!(w.chunk_size == if cs < 4096 { 4096 } else { cs as usize });
        assert!(w.next_sequence_to_dispatch == 0 && w.next_sequence_to_write == 0 && w.current_work_unit.is_empty());
        let h = w.work_queue.worker();
        let flag = Arc::clone(&w.shutdown_flag);
        assert!(!flag.load(Ordering::Acquire) && !h.is_closed_and_empty());
        let already: bool = vk::any();
        flag.store(already, Ordering::Release);
        drop(w);
        assert!(flag.load(Ordering::Acquire), "shutdown flag not set by drop");
        assert!(h.is_closed_and_empty(), "work queue left open by drop: idle workers sleep forever");
        assert!(h.steal().is_none());
    }
    /// chunk size missing => constructor refuses (no thread started)
    #[kani::proof]
    #[kani::unwind(4)]
    #[kani::stub(LZMA2WriterMT::spawn_worker_thread, spawn_stub)]
    #[kani::stub(alloc::sync::Arc::drop_slow, vk::arc_leak_stub)]
    //@ERR
    fn c19_new_w_lzma2_no_chunk_size() {
        unsafe { SPAWNED = 0; }
        let o = LZMA2Options { lzma_options: crate::LZMAOptions { dict_size: 4096, lc: 3, lp: 0, pb: 2, mode: crate::EncodeMode::Fast, nice_len: 32, mf: crate::MFType::HC4,
            depth_limit: 0, preset_dict: None }, chunk_size: None };
        let r = LZMA2WriterMT::new(vk::Sink::<16>::new(), o, vk::any());
        assert!(r.is_err() && unsafe { SPAWNED } == 0);
    }

    // ---------------------------------------------------------------- C18.mt / C13.unit: work units cut by byte count only
    pub(crate) static mut SENT_N: usize = 0;
    pub(crate) static mut SENT_LENS: [usize; 6] = [0; 6];
    pub(crate) static mut SENT_SUM: u32 = 0;       // ghost: running sum of the bytes of all units, in dispatch order
    /// send_work_unit by contract (own body: queue push + spawn rule, C10.bound): the current unit is handed over with
    /// the next sequence number and a fresh unit is started. Ghost log: length and byte sum of every unit.
    pub(crate) fn send_unit_stub<W: Write>(s: &mut LZMA2WriterMT<W>) -> io::Result<()> {
        if s.current_work_unit.is_empty() { return Ok(()); }
        unsafe {
            assert!(SENT_N < 6);
            SENT_LENS[SENT_N] = s.current_work_unit.len();
            SENT_N += 1;
            let mut i = 0;
            while i < s.current_work_unit.len() { SENT_SUM = SENT_SUM.wrapping_mul(31).wrapping_add(s.current_work_unit[i] as u32); i += 1; }
        }
        s.current_work_unit.clear();
        s.next_sequence_to_dispatch += 1;
        Ok(())
    }
    /// get_next_compressed_chunk by contract for the cutting harness: no result is ready yet
    pub(crate) fn no_result_stub<W: Write>(_s: &mut LZMA2WriterMT<W>, _blocking: bool) -> io::Result<Option<Vec<u8>>> { Ok(None) }

    /// One write of 20 bytes into a writer that already holds K pending bytes, unit size 8: every unit handed to the
    /// workers has exactly 8 bytes, the units are the input bytes in order (pending first), fewer than 8 bytes stay
    /// pending, everything is reported as consumed - whatever K is. (Unit boundaries depend on byte counts only.)
    fn mt_write_cut<const K: usize>() {
        unsafe { SENT_N = 0; SENT_SUM = 0; SPAWNED = 0; }
        let o = LZMA2Options { lzma_options: crate::LZMAOptions { dict_size: 4096, lc: 3, lp: 0, pb: 2, mode: crate::EncodeMode::Fast, nice_len: 32, mf: crate::MFType::HC4,
            depth_limit: 0, preset_dict: None }, chunk_size: core::num::NonZeroU64::new(4096) };
        let mut w = match LZMA2WriterMT::new(vk::Sink::<16>::new(), o, 2) { Ok(w) => core::mem::ManuallyDrop::new(w), Err(_) => { assert!(false); return; } };
        w.chunk_size = 8;
        let pend: [u8; 8] = vk::any();
        let buf: [u8; 20] = vk::any();
        let mut want: u32 = 0;
        let mut i = 0;
        while i < K { w.current_work_unit.push(pend[i]); want = want.wrapping_mul(31).wrapping_add(pend[i] as u32); i += 1; }
        let full = (K + 20) / 8;
        let rest = (K + 20) % 8;
        i = 0;
        while i < 20 - rest { want = want.wrapping_mul(31).wrapping_add(buf[i] as u32); i += 1; }
        let r = w.write(&buf);
        assert!(matches!(r, Ok(20)), "write must consume the whole buffer");
        assert!(unsafe { SENT_N } == full, "number of dispatched units");
        i = 0;
        while i < 6 { if i < full { assert!(unsafe { SENT_LENS[i] } == 8, "a dispatched unit is not exactly the unit size"); } i += 1; }
        assert!(w.current_work_unit.len() == rest);
        assert!(unsafe { SENT_SUM } == want, "units are not the input bytes in order");
        i = 0;
        while i < 8 { if i < rest { assert!(w.current_work_unit[i] == buf[20 - rest + i]); } i += 1; }
        assert!(w.next_sequence_to_dispatch == full as u64);
    }
    #[kani::proof]
    #[kani::unwind(22)]
    #[kani::stub(LZMA2WriterMT::spawn_worker_thread, spawn_stub)]
    #[kani::stub(LZMA2WriterMT::send_work_unit, send_unit_stub)]
    #[kani::stub(LZMA2WriterMT::get_next_compressed_chunk, no_result_stub)]
    #[kani::stub(alloc::sync::Arc::drop_slow, vk::arc_leak_stub)]
    //@ERR
    fn c18_mt_write_cut_lzma2_k0() { mt_write_cut::<0>(); }
    #[kani::proof]
    #[kani::unwind(22)]
    #[kani::stub(LZMA2WriterMT::spawn_worker_thread, spawn_stub)]
    #[kani::stub(LZMA2WriterMT::send_work_unit, send_unit_stub)]
    #[kani::stub(LZMA2WriterMT::get_next_compressed_chunk, no_result_stub)]
    #[kani::stub(alloc::sync::Arc::drop_slow, vk::arc_leak_stub)]
    //@ERR
    fn c18_mt_write_cut_lzma2_k3() { mt_write_cut::<3>(); }
    #[kani::proof]
    #[kani::unwind(22)]
    #[kani::stub(LZMA2WriterMT::spawn_worker_thread, spawn_stub)]
    #[kani::stub(LZMA2WriterMT::send_work_unit, send_unit_stub)]
    #[kani::stub(LZMA2WriterMT::get_next_compressed_chunk, no_result_stub)]
    #[kani::stub(alloc::sync::Arc::drop_slow, vk::arc_leak_stub)]
    //@ERR
    fn c18_mt_write_cut_lzma2_k7() { mt_write_cut::<7>(); }
