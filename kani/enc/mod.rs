    // ===== src/enc/mod.rs : re-exports so that harness modules outside `enc` can reach the payload scaffolding =====
    pub(crate) use super::lzma_writer::verif_kani::{lzma_new_zeroed, take_inner};
