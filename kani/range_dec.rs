    // ===== src/range_dec.rs =====

    pub(crate) fn mk_stream_decoder<const N: usize>(range: u32, code: u32, src: vk::Src<N>) -> RangeDecoder<vk::Src<N>> {
        RangeDecoder { inner: src, range, code }
    }
    pub(crate) fn dec_state<R>(d: &RangeDecoder<R>) -> (u32, u32) { (d.range, d.code) }

    /// C06.rc / C05.rc.buf / C15.dbits (Rust part): the chunk buffer reader never indexes out of bounds: reads past the
    /// end yield 0 and leave pos > len, so `is_finished()` (pos == len && code == 0) is false after an over-read.
    #[kani::proof]
    #[kani::unwind(6)]
    fn c06_rc_buffer_read_u8() {
        let mut b = RangeDecoderBuffer::new(4);
        let bytes: [u8; 4] = vk::any();
        let mut i = 0;
        while i < 4 { b.buf[i] = bytes[i]; i += 1; }
        let p: usize = vk::any();
        vk::assume(p <= 1 << 40);
        b.pos = p;
        let v = RangeReader::read_u8(&mut b);
        assert!(b.pos == p + 1);
        if p < 4 { assert!(v == bytes[p]); } else { assert!(v == 0); }
        let d = RangeDecoder { inner: b, range: 0, code: 0 };
        assert!(d.is_finished() == (p + 1 == 4));
    }

    /// C01.rc.direct / C14.dbits (portable text): decode_direct_bits(count) for any decoder state with code < range:
    /// (count <= 4: bounded; the loop body is uniform) returns `count` bits, each 1 iff code >= range/2 at that step, keeps code < range, pulls one byte per
    /// normalisation (range < 2^24), terminates. Stream reader variant (the asm fast path is not compiled for it).
    #[kani::proof]
    #[kani::unwind(7)]
    fn c01_rc_decode_direct_bits() {
        let data: [u8; 4] = vk::any();
        let range: u32 = vk::any();
        let code: u32 = vk::any();
        vk::assume(range >= 1 << 16 && code < range);
        let count: u32 = vk::any();
        vk::assume(count <= 4);
        let mut d = mk_stream_decoder(range, code, vk::Src::<4>::new(data, 4));
        // reference: the commented-out original loop of the source (normalise; halve; compare)
        let (mut r, mut c, mut res, mut used) = (range, code, 0u32, 0usize);
        let mut i = 0;
        while i < 4 {
            if i < count {
                if r < 0x0100_0000 { let b = if used < 4 { data[used] } else { 0 }; used += 1; c = (c << 8) | b as u32; r <<= 8; }
                r >>= 1;
                let t = c.wrapping_sub(r) >> 31;
                c -= r & t.wrapping_sub(1);
                res = (res << 1) | (1 - t);
            }
            i += 1;
        }
        let got = d.decode_direct_bits(count);
        assert!(got as u32 == res);
        assert!(d.range == r && d.code == c);
        assert!(d.inner.pos == if used < 4 { used } else { 4 });
        crate::vcover!(count == 4 && used >= 2);
    }

    pub(crate) fn mk_decoder<R>(inner: R, range: u32, code: u32) -> RangeDecoder<R> { RangeDecoder { inner, range, code } }
    pub(crate) fn rc_view<R>(d: &RangeDecoder<R>) -> (u32, u32, &R) { (d.range, d.code, &d.inner) }

    // ---- bit-channel stubs for the decoder side
    pub(crate) fn dec_bit_stub<R: RangeReader>(_s: &mut RangeDecoder<R>, prob: &mut u16) -> i32 {
        crate::vk::ch_get(crate::vk::ch_dec_slot(prob as *mut u16 as usize)) as i32
    }
    pub(crate) fn dec_direct_stub<R: RangeReader>(_s: &mut RangeDecoder<R>, count: u32) -> i32 {
        crate::vk::ch_get(crate::vk::CH_DIRECT | count) as i32
    }

    // ---------------------------------------------------------------- C05.rc.src: byte fetch of the stream range decoder
    /// healthy / short-reading / interrupted source: the fetch functions deliver the source's bytes in order; a failing
    /// source makes try_read_u8 / read_u32_be (used for the 5-byte preamble) return the source's error kind.
    #[kani::proof]
    #[kani::unwind(8)]
    //@ERR
    fn c05_rc_stream_fetch() {
        let data: [u8; 6] = vk::any();
        let mut src = vk::IoAny::<6>::new(data, 6);
        src.interrupts_left = 1;
        assert!(RangeReader::read_u8(&mut src) == data[0]);
        match RangeReader::try_read_u8(&mut src) { Ok(b) => assert!(b == data[1]), Err(_) => assert!(false) }
        match RangeReader::read_u32_be(&mut src) { Ok(v) => assert!(v == u32::from_be_bytes([data[2], data[3], data[4], data[5]])), Err(_) => assert!(false) }
        assert!(!RangeReader::is_buffer(&src));
        let mut bad = vk::IoAny::<6>::new(data, 6);
        bad.fail_at = 0;
        match RangeReader::try_read_u8(&mut bad) { Ok(_) => assert!(false), Err(e) => assert!(vk::kind_of(&e) == vk::Kind::Unknown) }
        let mut short = vk::IoAny::<6>::new(data, 3);
        match RangeReader::read_u32_be(&mut short) { Ok(_) => assert!(false), Err(e) => assert!(vk::kind_of(&e) == vk::Kind::Eof) }
    }
    /// KNOWN FINDING D19: the per-byte fetch used by normalize() during decoding has no error channel: an I/O error (or
    /// end of input) of the source becomes the data byte 0x00 and leaves no trace, so a reader over a failing source goes
    /// on decoding zeros instead of returning the source's error.
    #[kani::proof]
    #[kani::unwind(8)]
    //@ERR
    fn kf_c05_rc_stream_error_becomes_zero_byte() {
        let data: [u8; 6] = vk::any();
        let mut bad = vk::IoAny::<6>::new(data, 6);
        bad.fail_at = 0;
        let b = RangeReader::read_u8(&mut bad);
        assert!(!(b == 0 && bad.calls == 1 && bad.pos == 0), "source I/O error converted into a zero data byte by the range decoder's byte fetch");
    }
