    // ===== src/lzip/writer.rs =====
    use crate::vk::{pl_reset, PL_BLOCKS, PL_CUR_IN, PL_N};

    static DATA: [u8; 9000] = {
        let mut a = [0u8; 9000];
        let mut i = 0;
        while i < 9000 { a[i] = ((i as u8).wrapping_mul(7)) ^ ((i >> 5) as u8); i += 1; }
        a
    };

    fn lzip_opts(dict: u32, member: Option<u64>) -> LZIPOptions {
        LZIPOptions {
            lzma_options: LZMAOptions { dict_size: dict, lc: 0, lp: 4, pb: 0, mode: crate::EncodeMode::Fast,
                nice_len: 32, mf: crate::MFType::HC4, depth_limit: 4, preset_dict: None },
            member_size: member.and_then(NonZeroU64::new),
        }
    }

    /// C02.lzip.split / C18.lzip / C02.lzip.frame: one `write` of n bytes (any n <= 9000) then `finish`, member size
    /// 4096 = dictionary size, LZMA payload by contract (each member's payload emits `emit` bytes):
    /// the members partition the input in order, each holds <= member size bytes, and every member is framed as
    /// "LZIP",1,dict byte | payload | crc32(member data) | data size | member size = 6+payload+20 (little endian).
    fn lzip_write_members(emit: usize, limited: bool) {
        let n: usize = vk::any();
        vk::assume(n >= 1 && n <= 9000);
        lzip_write_members_n(emit, limited, n);
    }
    fn lzip_write_members_n(emit: usize, limited: bool, n: usize) {
        pl_reset(emit);
        let mut w = LZIPWriter::new(vk::Sink::<128>::new(), lzip_opts(100, if limited { Some(1) } else { None }));
        // options are normalised: LZMA-302eos parameters, dictionary clamped into the LZIP range, member >= dictionary
        assert!(w.options.lzma_options.lc == 3 && w.options.lzma_options.lp == 0 && w.options.lzma_options.pb == 2);
        assert!(w.options.lzma_options.dict_size == 4096);
        if limited { assert!(w.options.member_size.unwrap().get() == 4096); }
        let r = w.write(&DATA[..n]);
        assert!(matches!(r, Ok(k) if k == n));
        let sink = match w.finish() { Ok(s) => s, Err(_) => { assert!(false); return; } };
        let m = unsafe { PL_N };
        let expect_m = if limited { (n + 4095) / 4096 } else { 1 };
        assert!(m == expect_m);
        let msz = 6 + emit + 20;
        assert!(sink.len == m * msz);
        let mut start = 0usize;
        let mut i = 0;
        while i < 3 {
            if i < m {
                let len = unsafe { PL_BLOCKS[i] } as usize;
                assert!(len >= 1);
                if limited { assert!(len <= 4096); assert!(i + 1 == m || len == 4096); }
                let o = i * msz;
                let b = &sink.buf;
                assert!(b[o] == b'L' && b[o + 1] == b'Z' && b[o + 2] == b'I' && b[o + 3] == b'P' && b[o + 4] == 1 && b[o + 5] == 0x0C);
                let t = o + 6 + emit;
                let crc = CRC32.checksum(&DATA[start..start + len]);
                assert!(b[t..t + 4] == crc.to_le_bytes());
                assert!(b[t + 4..t + 12] == (len as u64).to_le_bytes());
                assert!(b[t + 12..t + 20] == (msz as u64).to_le_bytes());
                start += len;
            }
            i += 1;
        }
        assert!(start == n);
    }
    #[kani::proof]
    #[kani::unwind(10)]
    //@ERR
    //@PAYLOAD_LZMA_W
    fn c02_lzip_members_e1() { lzip_write_members(1, true); }
    #[kani::proof]
    #[kani::unwind(10)]
    //@ERR
    //@PAYLOAD_LZMA_W
    fn c02_lzip_members_e4() { lzip_write_members(4, true); }
    #[kani::proof]
    #[kani::unwind(10)]
    //@ERR
    //@PAYLOAD_LZMA_W
    fn c02_lzip_members_unlimited() { lzip_write_members(2, false); }

    /// C07: two writes a ++ b give the same members/trailers as one write (member switch only between bytes, CRC continues).
    #[kani::proof]
    #[kani::unwind(10)]
    //@ERR
    //@PAYLOAD_LZMA_W
    fn c07_lzip_two_writes() {
        pl_reset(2);
        let mut w = LZIPWriter::new(vk::Sink::<128>::new(), lzip_opts(4096, Some(4096)));
        let a: usize = vk::any();
        let n: usize = vk::any();
        vk::assume(a >= 1 && a < n && n <= 6000);
        assert!(matches!(w.write(&DATA[..a]), Ok(k) if k == a));
        assert!(matches!(w.write(&DATA[..0]), Ok(0)));
        assert!(matches!(w.write(&DATA[a..n]), Ok(k) if k == n - a));
        let sink = match w.finish() { Ok(s) => s, Err(_) => { assert!(false); return; } };
        let m = unsafe { PL_N };
        assert!(m == (n + 4095) / 4096);
        let msz = 6 + 2 + 20;
        let first = if n < 4096 { n } else { 4096 };
        let t = 6 + 2;
        assert!(sink.buf[t..t + 4] == CRC32.checksum(&DATA[..first]).to_le_bytes());
        assert!(sink.buf[t + 4..t + 12] == (first as u64).to_le_bytes());
        if m == 2 {
            let t2 = msz + 6 + 2;
            assert!(sink.buf[t2..t2 + 4] == CRC32.checksum(&DATA[4096..n]).to_le_bytes());
            assert!(sink.buf[t2 + 4..t2 + 12] == ((n - 4096) as u64).to_le_bytes());
        }
        crate::vcover!(m == 2 && a < 4096);
        crate::vcover!(m == 2 && a > 4096);
    }

    // concrete histories (cheap: everything but the payload is executed concretely)
    #[kani::proof]
    #[kani::unwind(10)]
    //@ERR
    //@PAYLOAD_LZMA_W
    fn c02_lzip_hist_n10() { lzip_write_members_n(2, true, 10); }
    #[kani::proof]
    #[kani::unwind(10)]
    //@ERR
    //@PAYLOAD_LZMA_W
    fn c02_lzip_hist_n4101() { lzip_write_members_n(3, true, 4101); }
    #[kani::proof]
    #[kani::unwind(10)]
    //@ERR
    //@PAYLOAD_LZMA_W
    fn c02_lzip_hist_n8193() { lzip_write_members_n(1, true, 8193); }

    /// C19 / C18.clamp: LZIPWriter::new normalises *every* option value a caller can supply: LZMA-302eos parameters
    /// (lc=3, lp=0, pb=2 - the format cannot express others and the reader assumes them), dictionary clamped into
    /// 4 KiB..512 MiB (so the header byte exists), member size raised to the dictionary size.
    #[kani::proof]
    #[kani::unwind(4)]
    fn c19_lzip_new_normalises() {
        let (lc, lp, pb, dict): (u32, u32, u32, u32) = (vk::any(), vk::any(), vk::any(), vk::any());
        let member: u64 = vk::any();
        let o = LZIPOptions {
            lzma_options: LZMAOptions { dict_size: dict, lc, lp, pb, mode: crate::EncodeMode::Fast, nice_len: 32, mf: crate::MFType::HC4, depth_limit: 0, preset_dict: None },
            member_size: NonZeroU64::new(member),
        };
        let w = LZIPWriter::new(vk::Sink::<4>::new(), o);
        let l = &w.options.lzma_options;
        assert!(l.lc == 3 && l.lp == 0 && l.pb == 2);
        assert!(l.dict_size >= MIN_DICT_SIZE && l.dict_size <= MAX_DICT_SIZE);
        assert!(l.dict_size == if dict < MIN_DICT_SIZE { MIN_DICT_SIZE } else if dict > MAX_DICT_SIZE { MAX_DICT_SIZE } else { dict });
        assert!(encode_dict_size(l.dict_size).is_ok());
        match w.options.member_size {
            None => assert!(member == 0),
            Some(m) => assert!(m.get() == if member < l.dict_size as u64 { l.dict_size as u64 } else { member }),
        }
        assert!(!w.header_written && !w.finished && w.lzma_writer.is_none());
        core::mem::forget(w);
    }

    // ---------------------------------------------------------------- LZIPWriter::write orchestration (modular)
    static mut STARTS: u32 = 0;
    static mut MEMBERS: [(u64, u32); 4] = [(0, 0); 4];     // (data size, crc32) of each finished member
    static mut MEMBER_N: usize = 0;
    /// start_new_member by contract (body: C02.lzip.hist): a member is opened: payload writer installed, per-member
    /// counters and CRC restarted. (ptr::write: the previous Option is None and must not run drop glue.)
    fn start_member_stub<W: Write>(s: &mut LZIPWriter<W>) -> Result<()> {
        unsafe {
            STARTS += 1;
            assert!(MEMBER_N as u32 + 1 == STARTS);          // never two open members
            let inner = s.inner.take().expect("inner writer not set");
            let w = crate::enc::verif_kani::lzma_new_zeroed(CountingWriter::new(inner), &s.options.lzma_options, false, true, None).ok().unwrap();
            core::ptr::write(&mut s.lzma_writer, Some(w));
        }
        s.header_written = true;
        s.current_member_uncompressed_size = 0;
        s.crc_digest = CRC32.digest();
        s.uncompressed_size = 0;
        Ok(())
    }
    /// finish_current_member by contract: the open member is closed; its trailer carries the running CRC and data size
    fn finish_member_stub<W: Write>(s: &mut LZIPWriter<W>) -> Result<()> {
        unsafe {
            assert!(MEMBER_N < 4 && STARTS as usize == MEMBER_N + 1);
            let w = s.lzma_writer.take().expect("lzma writer not set");
            let counting = crate::enc::verif_kani::take_inner(w);
            s.inner = Some(counting.into_inner());
            let dg = core::mem::replace(&mut s.crc_digest, CRC32.digest());
            MEMBERS[MEMBER_N] = (s.uncompressed_size, dg.finalize());
            MEMBER_N += 1;
        }
        s.header_written = false;
        Ok(())
    }

    /// C02.lzip.split / C18.lzip / C07: the member-splitting logic of LZIPWriter::write for one call of ANY length
    /// n <= 4500 (member size 4096 = dictionary size), then the closing of the last member: members are opened and closed
    /// alternately, every member holds 1..=4096 bytes and all but the last exactly 4096, the members partition the input
    /// in order, and each member's CRC and data size are those of exactly its own bytes.
    #[kani::proof]
    #[kani::unwind(4)]
    //@ERR
    #[kani::stub(LZIPWriter::start_new_member, start_member_stub)]
    #[kani::stub(LZIPWriter::finish_current_member, finish_member_stub)]
    #[kani::stub(crate::enc::lz::LZEncoder::fill_window, crate::enc::lzma2_writer::verif_kani::fill_window_stub)]
    #[kani::stub(crate::enc::encoder::LZMAEncoder::encode_for_lzma1, crate::enc::lzma_writer::verif_kani::encode_for_lzma1_stub)]
    fn c02_lzip_write_splits_members() {
        unsafe { STARTS = 0; MEMBER_N = 0; crate::vk::pl_reset(1); }
        let mut w = LZIPWriter::new(vk::Sink::<8>::new(), lzip_opts(4096, Some(4096)));
        let n: usize = vk::any();
        vk::assume(n >= 1 && n <= 4500);
        let r = w.write(&DATA[..n]);
        assert!(matches!(r, Ok(k) if k == n));
        assert!(unsafe { crate::vk::PL_CUR_IN } == n as u64);        // every byte reached a payload writer exactly once
        // close the last member the way finish() does
        assert!(w.header_written);
        assert!(finish_member_stub(&mut w).is_ok());
        let m = unsafe { MEMBER_N };
        assert!(m == (n + 4095) / 4096 && unsafe { STARTS } as usize == m);
        let mut start = 0usize;
        let mut i = 0;
        while i < 3 {
            if i < m {
                let (len, crc) = unsafe { MEMBERS[i] };
                let len = len as usize;
                assert!(len >= 1 && len <= 4096, "member exceeds the configured member size");
                assert!(i + 1 == m || len == 4096);
                assert!(crc == CRC32.checksum(&DATA[start..start + len]), "member CRC is not the CRC of the member's own bytes");
                start += len;
            }
            i += 1;
        }
        assert!(start == n);
        crate::vcover!(m == 2);
        core::mem::forget(w);
    }
