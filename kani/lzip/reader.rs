    // ===== src/lzip/reader.rs =====
    use crate::lzip::{LZIP_MAGIC, LZIP_VERSION};

    /// C04.lzip.header / C06.lzip / C03.lzip.layout: LZIPHeader::parse on 6 arbitrary bytes: Ok <=> "LZIP", version 1 and a
    /// dictionary byte whose decoded size is inside 4 KiB..512 MiB; all 6 bytes consumed; Err(InvalidData) otherwise.
    #[kani::proof]
    #[kani::unwind(8)]
    //@ERR
    fn c04_lzip_header_parse_any() {
        let b: [u8; 6] = vk::any();
        let mut r = &b[..];
        let res = LZIPHeader::parse(&mut r);
        let magic_ok = b[0] == b'L' && b[1] == b'Z' && b[2] == b'I' && b[3] == b'P';
        let lg = (b[5] & 0x1F) as u32;
        let fr = (b[5] >> 5) as u32;
        let dict_ok = lg >= 12 && lg <= 29 && ((1u32 << lg) - ((1u32 << lg) / 16) * fr) >= 4096;
        match res {
            Ok(h) => {
                assert!(magic_ok && b[4] == 1 && dict_ok);
                assert!(h.version == 1 && h.dict_size == (1u32 << lg) - ((1u32 << lg) / 16) * fr);
                assert!(r.len() == 0);
            }
            Err(e) => {
                assert!(!(magic_ok && b[4] == 1 && dict_ok));
                assert!(vk::kind_of(&e) == vk::Kind::InvalidData);
            }
        }
        crate::vcover!(magic_ok && b[4] == 1 && dict_ok);
    }

    /// C04.lzip.trailer: LZIPTrailer::parse returns the three little-endian fields verbatim and consumes 20 bytes.
    #[kani::proof]
    #[kani::unwind(8)]
    //@ERR
    fn c04_lzip_trailer_parse_any() {
        let b: [u8; 20] = vk::any();
        let mut r = &b[..];
        match LZIPTrailer::parse(&mut r) {
            Ok(t) => {
                assert!(t.crc32 == u32::from_le_bytes([b[0], b[1], b[2], b[3]]));
                assert!(t.data_size == u64::from_le_bytes([b[4], b[5], b[6], b[7], b[8], b[9], b[10], b[11]]));
                assert!(t.member_size == u64::from_le_bytes([b[12], b[13], b[14], b[15], b[16], b[17], b[18], b[19]]));
                assert!(r.len() == 0);
            }
            Err(_) => assert!(false),
        }
    }

    /// C04.lzip.trailer: finish_current_member accepts the member exactly when the stored CRC32 equals the check of
    /// the bytes yielded for this member, the stored data size equals the number of bytes yielded and the stored member
    /// size equals 6 + compressed bytes read + 20; every mismatch is Err(InvalidData); the source is handed back either way.
    #[kani::proof]
    #[kani::unwind(8)]
    //@ERR
    fn c04_lzip_finish_member() {
        let trailer: [u8; 20] = vk::any();
        let yielded: [u8; 3] = vk::any();
        let compressed: u64 = vk::any();
        let data_size: u64 = vk::any();
        vk::assume(compressed < 1 << 40 && data_size < 1 << 40);
        let mut counting = CountingReader::new(vk::Src::<20>::new(trailer, 20));
        counting.bytes_read = compressed;
        let lzma = crate::lzma_reader::verif_kani::mk_reader_zeroed(crate::range_dec::verif_kani::mk_decoder(counting, 0, 0));
        let mut r = LZIPReader::new(vk::Src::<20>::new([0u8; 20], 0)).unwrap();
        r.inner = None;
        r.lzma_reader = Some(lzma);
        let mut dg = CRC32.digest();
        dg.update(&yielded);
        let want_crc = CRC32.checksum(&yielded);
        r.crc_digest = Some(dg);
        r.data_size = data_size;
        let res = r.finish_current_member();
        let crc_ok = u32::from_le_bytes([trailer[0], trailer[1], trailer[2], trailer[3]]) == want_crc;
        let ds = u64::from_le_bytes([trailer[4], trailer[5], trailer[6], trailer[7], trailer[8], trailer[9], trailer[10], trailer[11]]);
        let ms = u64::from_le_bytes([trailer[12], trailer[13], trailer[14], trailer[15], trailer[16], trailer[17], trailer[18], trailer[19]]);
        let all_ok = crc_ok && ds == data_size && ms == 6 + compressed + 20;
        match res {
            Ok(()) => assert!(all_ok),
            Err(e) => { assert!(!all_ok); assert!(vk::kind_of(&e) == vk::Kind::InvalidData); }
        }
        assert!(r.inner.is_some() && r.lzma_reader.is_none());
        assert!(r.inner.as_ref().unwrap().pos == 20);
        crate::vcover!(all_ok);
        core::mem::forget(r);
    }

    // ---------------------------------------------------------------- member loop
    fn lz_new_stub(_dict_size: usize, _preset: Option<&[u8]>) -> crate::lz::LZDecoder { crate::lz::LZDecoder::default() }
    fn dec_new_stub(_lc: u32, _lp: u32, _pb: u32) -> crate::decoder::LZMADecoder {
        unsafe { core::mem::MaybeUninit::<crate::decoder::LZMADecoder>::zeroed().assume_init() }
    }
    fn fresh_reader(data: [u8; 12], len: usize, first: bool) -> LZIPReader<vk::Src<12>> {
        let mut r = LZIPReader::new(vk::Src::<12>::new(data, len)).unwrap();
        if !first { r.current_header = Some(LZIPHeader { version: 1, dict_size: 4096 }); }
        r
    }

    /// C12.lzip.loop / C04.lzip.header: start_next_member on a well-formed member start (header + range-coder preamble):
    /// Ok(true), the decoder is set up with the header's dictionary and LZMA-302eos parameters, per-member CRC and
    /// size counters restart, exactly 6 + 5 bytes are consumed.
    #[kani::proof]
    #[kani::unwind(8)]
    //@ERR
    #[kani::stub(crate::lz::LZDecoder::new, lz_new_stub)]
    #[kani::stub(crate::decoder::LZMADecoder::new, dec_new_stub)]
    fn c12_lzip_start_member_valid() {
        let dict_byte: u8 = vk::any();
        vk::assume(decode_dict_byte_ok(dict_byte));
        let rest: [u8; 4] = vk::any();
        let data = [b'L', b'Z', b'I', b'P', 1, dict_byte, 0, rest[0], rest[1], rest[2], rest[3], 0x77];
        let first: bool = vk::any();
        let mut r = fresh_reader(data, 12, first);
        r.data_size = 99;
        let res = r.start_next_member();
        assert!(matches!(res, Ok(true)));
        assert!(r.lzma_reader.is_some() && r.inner.is_none());
        assert!(r.data_size == 0 && r.crc_digest.is_some() && r.trailer_buf.is_empty());
        assert!(r.current_header.as_ref().unwrap().version == 1);
        core::mem::forget(r);
    }
    fn decode_dict_byte_ok(b: u8) -> bool {
        let lg = (b & 0x1F) as u32; let fr = (b >> 5) as u32;
        lg >= 12 && lg <= 29 && ((1u32 << lg) - ((1u32 << lg) / 16) * fr) >= 4096
    }

    /// C12.lzip.loop / C04 (tolerated loss defined by the format): after at least one complete member, end of input or
    /// bytes that do not start with the member magic end the file cleanly: Ok(false), source handed back.
    #[kani::proof]
    #[kani::unwind(8)]
    //@ERR
    #[kani::stub(crate::lz::LZDecoder::new, lz_new_stub)]
    #[kani::stub(crate::decoder::LZMADecoder::new, dec_new_stub)]
    fn c12_lzip_trailing_garbage_after_member() {
        let data: [u8; 12] = vk::any();
        let len: usize = vk::any();
        vk::assume(len <= 12);
        vk::assume(len < 4 || !(data[0] == b'L' && data[1] == b'Z' && data[2] == b'I' && data[3] == b'P'));
        let mut r = fresh_reader(data, len, false);
        let res = r.start_next_member();
        assert!(matches!(res, Ok(false)));
        assert!(r.inner.is_some() && r.lzma_reader.is_none());
        core::mem::forget(r);
    }

    /// KNOWN FINDING D16 (C04): a member header that is recognisable (magic present) but damaged - wrong version or an
    /// invalid dictionary byte - and, for the first member, any non-empty input without the magic, must be an error;
    /// start_next_member maps every header error to "no more members", so a damaged file decodes as empty / truncated.
    #[kani::proof]
    #[kani::unwind(8)]
    //@ERR
    #[kani::stub(crate::lz::LZDecoder::new, lz_new_stub)]
    #[kani::stub(crate::decoder::LZMADecoder::new, dec_new_stub)]
    fn kf_c04_lzip_damaged_header_is_eof() {
        let data: [u8; 12] = vk::any();
        let first: bool = vk::any();
        let magic = data[0] == b'L' && data[1] == b'Z' && data[2] == b'I' && data[3] == b'P';
        let damaged = magic && (data[4] != 1 || !decode_dict_byte_ok(data[5]));
        vk::assume(damaged || (first && !magic));
        let mut r = fresh_reader(data, 12, first);
        let res = r.start_next_member();
        assert!(res.is_err(), "damaged or foreign member header reported as clean end of input");
        core::mem::forget(r);
    }
