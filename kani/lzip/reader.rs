    // ===== src/lzip/reader.rs =====
    use crate::lzip::{LZIP_MAGIC, LZIP_VERSION};

    /// C04.lzip.header / C06.lzip / C03.lzip.layout: LZIPHeader::parse on 6 arbitrary bytes: Ok <=> "LZIP", version 1 and a
    /// dictionary byte whose decoded size is inside 4 KiB..512 MiB; all 6 bytes consumed; Err(InvalidData) otherwise.
    #[kani::proof]
    #[kani::unwind(8)]
    //@ERR
    fn c04_lzip_header_parse_any() {
        let b: [u8; 6] = vk::any();
        let mut r = &b[..];
        let res = LZIPHeader::parse(&mut r);
        let magic_ok = b[0] == b'L' && b[1] == b'Z' && b[2] == b'I' && b[3] == b'P';
        let lg = (b[5] & 0x1F) as u32;
        let fr = (b[5] >> 5) as u32;
        let dict_ok = lg >= 12 && lg <= 29 && ((1u32 << lg) - ((1u32 << lg) / 16) * fr) >= 4096;
        match res {
            Ok(h) => {
                assert!(magic_ok && b[4] == 1 && dict_ok);
                assert!(h.version == 1 && h.dict_size == (1u32 << lg) - ((1u32 << lg) / 16) * fr);
                assert!(r.len() == 0);
            }
            Err(e) => {
                assert!(!(magic_ok && b[4] == 1 && dict_ok));
                assert!(vk::kind_of(&e) == vk::Kind::InvalidData);
            }
        }
        crate::vcover!(magic_ok && b[4] == 1 && dict_ok);
    }

    /// C04.lzip.trailer: LZIPTrailer::parse returns the three little-endian fields verbatim and consumes 20 bytes.
    #[kani::proof]
    #[kani::unwind(8)]
    //@ERR
    fn c04_lzip_trailer_parse_any() {
        let b: [u8; 20] = vk::any();
        let mut r = &b[..];
        match LZIPTrailer::parse(&mut r) {
            Ok(t) => {
                assert!(t.crc32 == u32::from_le_bytes([b[0], b[1], b[2], b[3]]));
                assert!(t.data_size == u64::from_le_bytes([b[4], b[5], b[6], b[7], b[8], b[9], b[10], b[11]]));
                assert!(t.member_size == u64::from_le_bytes([b[12], b[13], b[14], b[15], b[16], b[17], b[18], b[19]]));
                assert!(r.len() == 0);
            }
            Err(_) => assert!(false),
        }
    }

    /// C04.lzip.trailer: finish_current_member accepts the member exactly when the stored CRC32 equals the check of
    /// the bytes yielded for this member, the stored data size equals the number of bytes yielded and the stored member
    /// size equals 6 + compressed bytes read + 20; every mismatch is Err(InvalidData); the source is handed back either way.
    #[kani::proof]
    #[kani::unwind(8)]
    //@ERR
    fn c04_lzip_finish_member() {
        let trailer: [u8; 20] = vk::any();
        let yielded: [u8; 3] = vk::any();
        let compressed: u64 = vk::any();
        let data_size: u64 = vk::any();
        vk::assume(compressed < 1 << 40 && data_size < 1 << 40);
        let mut counting = CountingReader::new(vk::Src::<20>::new(trailer, 20));
        counting.bytes_read = compressed;
        let lzma = crate::lzma_reader::verif_kani::mk_reader_zeroed(crate::range_dec::verif_kani::mk_decoder(counting, 0, 0));
        let mut r = LZIPReader::new(vk::Src::<20>::new([0u8; 20], 0)).unwrap();
        r.inner = None;
        r.lzma_reader = Some(lzma);
        let mut dg = CRC32.digest();
        dg.update(&yielded);
        let want_crc = CRC32.checksum(&yielded);
        r.crc_digest = Some(dg);
        r.data_size = data_size;
        let res = r.finish_current_member();
        let crc_ok = u32::from_le_bytes([trailer[0], trailer[1], trailer[2], trailer[3]]) == want_crc;
        let ds = u64::from_le_bytes([trailer[4], trailer[5], trailer[6], trailer[7], trailer[8], trailer[9], trailer[10], trailer[11]]);
        let ms = u64::from_le_bytes([trailer[12], trailer[13], trailer[14], trailer[15], trailer[16], trailer[17], trailer[18], trailer[19]]);
        let all_ok = crc_ok && ds == data_size && ms == 6 + compressed + 20;
        match res {
            Ok(()) => assert!(all_ok),
            Err(e) => { assert!(!all_ok); assert!(vk::kind_of(&e) == vk::Kind::InvalidData); }
        }
        assert!(r.inner.is_some() && r.lzma_reader.is_none());
        assert!(r.inner.as_ref().unwrap().pos == 20);
        crate::vcover!(all_ok);
        core::mem::forget(r);
    }
