    // ===== src/lzip/writer_mt.rs : coordinator (sequential part) =====

    pub(crate) static mut SPAWNED: u32 = 0;
    /// thread::spawn is outside Kani: ghost counter
    pub(crate) fn spawn_stub<W: Write>(_s: &mut LZIPWriterMT<W>) { unsafe { SPAWNED += 1; } }
    fn notify_stub(_c: &std::sync::Condvar) {}

    /// C10.bound / C10.drop / C18.clamp for the LZIP MT writer (contract text: kani/enc/lzma2_writer_mt.rs)
    #[kani::proof]
    #[kani::unwind(4)]
    #[kani::stub(LZIPWriterMT::spawn_worker_thread, spawn_stub)]
    #[kani::stub(std::sync::Condvar::notify_one, notify_stub)]
    #[kani::stub(std::sync::Condvar::notify_all, notify_stub)]
    #[kani::stub(alloc::sync::Arc::drop_slow, vk::arc_leak_stub)]
    //@ERR
    fn c10_new_drop_w_lzip_small() { c10_new_drop_w_lzip_body(100); }
    #[kani::proof]
    #[kani::unwind(4)]
    #[kani::stub(LZIPWriterMT::spawn_worker_thread, spawn_stub)]
    #[kani::stub(std::sync::Condvar::notify_one, notify_stub)]
    #[kani::stub(std::sync::Condvar::notify_all, notify_stub)]
    #[kani::stub(alloc::sync::Arc::drop_slow, vk::arc_leak_stub)]
    //@ERR
    fn c10_new_drop_w_lzip_large() { c10_new_drop_w_lzip_body(8192); }
    fn c10_new_drop_w_lzip_body(ms: u64) {
        unsafe { SPAWNED = 0; }
        let n: u32 = vk::any();
        let o = LZIPOptions { lzma_options: crate::LZMAOptions { dict_size: 4096, lc: 3, lp: 0, pb: 2, mode: crate::EncodeMode::Fast, nice_len: 32, mf: crate::MFType::HC4,
            depth_limit: 0, preset_dict: None }, member_size: core::num::NonZeroU64::new(ms) };
        let w = match LZIPWriterMT::new(vk::Sink::<16>::new(), o, n) { Ok(w) => w, Err(_) => { assert!(false, "valid options rejected"); return; } };
        assert!(w.max_workers == if n < 1 { 1 } else if n > 256 { 256 } else { n });
        assert!(unsafe { SPAWNED } == 1, "exactly one worker is started by the constructor");
        assert!(w.member_size == if ms < 4096 { 4096 } else { ms as usize });
        assert!(w.next_sequence_to_dispatch == 0 && w.next_sequence_to_write == 0 && w.current_work_unit.is_empty());
        let h = w.work_queue.worker();
        let flag = Arc::clone(&w.shutdown_flag);
        assert!(!flag.load(Ordering::Acquire) && !h.is_closed_and_empty());
        let already: bool = vk::any();
        flag.store(already, Ordering::Release);
        drop(w);
        assert!(flag.load(Ordering::Acquire), "shutdown flag not set by drop");
        assert!(h.is_closed_and_empty(), "work queue left open by drop: idle workers sleep forever");
        assert!(h.steal().is_none());
    }
