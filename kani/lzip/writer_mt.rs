    // ===== src/lzip/writer_mt.rs : coordinator (sequential part) =====

    pub(crate) static mut SPAWNED: u32 = 0;
    /// thread::spawn is outside Kani: ghost counter
    pub(crate) fn spawn_stub<W: Write>(_s: &mut LZIPWriterMT<W>) { unsafe { SPAWNED += 1; } }
    fn notify_stub(_c: &std::sync::Condvar) {}

    /// C10.bound / C10.drop / C18.clamp for the LZIP MT writer (contract text: kani/enc/lzma2_writer_mt.rs)
    #[kani::proof]
    #[kani::unwind(4)]
    #[kani::stub(LZIPWriterMT::spawn_worker_thread, spawn_stub)]
    #[kani::stub(std::sync::Condvar::notify_one, notify_stub)]
    #[kani::stub(std::sync::Condvar::notify_all, notify_stub)]
    #[kani::stub(alloc::sync::Arc::drop_slow, vk::arc_leak_stub)]
    //@ERR
    fn c10_new_drop_w_lzip_small() { c10_new_drop_w_lzip_body(100); }
    #[kani::proof]
    #[kani::unwind(4)]
    #[kani::stub(LZIPWriterMT::spawn_worker_thread, spawn_stub)]
    #[kani::stub(std::sync::Condvar::notify_one, notify_stub)]
    #[kani::stub(std::sync::Condvar::notify_all, notify_stub)]
    #[kani::stub(alloc::sync::Arc::drop_slow, vk::arc_leak_stub)]
    //@ERR
    fn c10_new_drop_w_lzip_large() { c10_new_drop_w_lzip_body(8192); }
    fn c10_new_drop_w_lzip_body(ms: u64) {
        unsafe { SPAWNED = 0; }
        let n: u32 = vk::any();
        let o = LZIPOptions { lzma_options: crate::LZMAOptions { dict_size: 4096, lc: 3, lp: 0, pb: 2, mode: crate::EncodeMode::Fast, nice_len: 32, mf: crate::MFType::HC4,
            depth_limit: 0, preset_dict: None }, member_size: core::num::NonZeroU64::new(ms) };
        let w = match LZIPWriterMT::new(vk::Sink::<16>::new(), o, n) { Ok(w) => w, Err(_) => { assert!(false, "valid options rejected"); return; } };
        assert!(w.max_workers == if n < 1 { 1 } else if n > 256 { 256 } else { n });
        assert!(unsafe { SPAWNED } == 1, "exactly one worker is started by the constructor");
        assert!(w.member_size == if ms < 4096 { 4096 } else { ms as usize });
        assert!(w.next_sequence_to_dispatch == 0 && w.next_sequence_to_write == 0 && w.current_work_unit.is_empty());
        let h = w.work_queue.worker();
        let flag = Arc::clone(&w.shutdown_flag);
        assert!(!flag.load(Ordering::Acquire) && !h.is_closed_and_empty());
        let already: bool = vk::any();
        flag.store(already, Ordering::Release);
        drop(w);
        assert!(flag.load(Ordering::Acquire), "shutdown flag not set by drop");
        assert!(h.is_closed_and_empty(), "work queue left open by drop: idle workers sleep forever");
        assert!(h.steal().is_none());
    }

    // ---------------------------------------------------------------- C18.mt / C13.unit: work units cut by byte count only
    pub(crate) static mut SENT_N: usize = 0;
    pub(crate) static mut SENT_LENS: [usize; 6] = [0; 6];
    pub(crate) static mut SENT_SUM: u32 = 0;       // ghost: running sum of the bytes of all units, in dispatch order
    /// send_work_unit by contract (own body: queue push + spawn rule, C10.bound): the current unit is handed over with
    /// the next sequence number and a fresh unit is started. Ghost log: length and byte sum of every unit.
    pub(crate) fn send_unit_stub<W: Write>(s: &mut LZIPWriterMT<W>) -> io::Result<()> {
        if s.current_work_unit.is_empty() { return Ok(()); }
        unsafe {
            assert!(SENT_N < 6);
            SENT_LENS[SENT_N] = s.current_work_unit.len();
            SENT_N += 1;
            let mut i = 0;
            while i < s.current_work_unit.len() { SENT_SUM = SENT_SUM.wrapping_mul(31).wrapping_add(s.current_work_unit[i] as u32); i += 1; }
        }
        s.current_work_unit.clear();
        s.next_sequence_to_dispatch += 1;
        Ok(())
    }
    /// get_next_compressed_chunk by contract for the cutting harness: no result is ready yet
    pub(crate) fn no_result_stub<W: Write>(_s: &mut LZIPWriterMT<W>, _blocking: bool) -> io::Result<Option<Vec<u8>>> { Ok(None) }

    /// One write of 20 bytes into a writer that already holds K pending bytes, unit size 8: every unit handed to the
    /// workers has exactly 8 bytes, the units are the input bytes in order (pending first), fewer than 8 bytes stay
    /// pending, everything is reported as consumed - whatever K is. (Unit boundaries depend on byte counts only.)
    fn mt_write_cut<const K: usize>() {
        unsafe { SENT_N = 0; SENT_SUM = 0; SPAWNED = 0; }
        let o = LZIPOptions { lzma_options: crate::LZMAOptions { dict_size: 4096, lc: 3, lp: 0, pb: 2, mode: crate::EncodeMode::Fast, nice_len: 32, mf: crate::MFType::HC4,
            depth_limit: 0, preset_dict: None }, member_size: core::num::NonZeroU64::new(4096) };
        let mut w = match LZIPWriterMT::new(vk::Sink::<16>::new(), o, 2) { Ok(w) => core::mem::ManuallyDrop::new(w), Err(_) => { assert!(false); return; } };
        w.member_size = 8;
        let pend: [u8; 8] = vk::any();
        let buf: [u8; 20] = vk::any();
        let mut want: u32 = 0;
        let mut i = 0;
        while i < K { w.current_work_unit.push(pend[i]); want = want.wrapping_mul(31).wrapping_add(pend[i] as u32); i += 1; }
        let full = (K + 20) / 8;
        let rest = (K + 20) % 8;
        i = 0;
        while i < 20 - rest { want = want.wrapping_mul(31).wrapping_add(buf[i] as u32); i += 1; }
        let r = w.write(&buf);
        assert!(matches!(r, Ok(20)), "write must consume the whole buffer");
        assert!(unsafe { SENT_N } == full, "number of dispatched units");
        i = 0;
        while i < 6 { if i < full { assert!(unsafe { SENT_LENS[i] } == 8, "a dispatched unit is not exactly the unit size"); } i += 1; }
        assert!(w.current_work_unit.len() == rest);
        assert!(unsafe { SENT_SUM } == want, "units are not the input bytes in order");
        i = 0;
        while i < 8 { if i < rest { assert!(w.current_work_unit[i] == buf[20 - rest + i]); } i += 1; }
        assert!(w.next_sequence_to_dispatch == full as u64);
    }
    #[kani::proof]
    #[kani::unwind(22)]
    #[kani::stub(LZIPWriterMT::spawn_worker_thread, spawn_stub)]
    #[kani::stub(LZIPWriterMT::send_work_unit, send_unit_stub)]
    #[kani::stub(LZIPWriterMT::get_next_compressed_chunk, no_result_stub)]
    #[kani::stub(alloc::sync::Arc::drop_slow, vk::arc_leak_stub)]
    //@ERR
    fn c18_mt_write_cut_lzip_k0() { mt_write_cut::<0>(); }
    #[kani::proof]
    #[kani::unwind(22)]
    #[kani::stub(LZIPWriterMT::spawn_worker_thread, spawn_stub)]
    #[kani::stub(LZIPWriterMT::send_work_unit, send_unit_stub)]
    #[kani::stub(LZIPWriterMT::get_next_compressed_chunk, no_result_stub)]
    #[kani::stub(alloc::sync::Arc::drop_slow, vk::arc_leak_stub)]
    //@ERR
    fn c18_mt_write_cut_lzip_k3() { mt_write_cut::<3>(); }
    #[kani::proof]
    #[kani::unwind(22)]
    #[kani::stub(LZIPWriterMT::spawn_worker_thread, spawn_stub)]
    #[kani::stub(LZIPWriterMT::send_work_unit, send_unit_stub)]
    #[kani::stub(LZIPWriterMT::get_next_compressed_chunk, no_result_stub)]
    #[kani::stub(alloc::sync::Arc::drop_slow, vk::arc_leak_stub)]
    //@ERR
    fn c18_mt_write_cut_lzip_k7() { mt_write_cut::<7>(); }
