    // ===== src/lzip/reader_mt.rs : coordinator (sequential part) =====

    pub(crate) static mut SPAWNED: u32 = 0;
    pub(crate) fn spawn_stub<R: Read + Seek>(_s: &mut LZIPReaderMT<R>) { unsafe { SPAWNED += 1; } }
    fn notify_stub(_c: &std::sync::Condvar) {}
    /// scan_members by contract for the constructor harness (its own body: C08.scan): member table filled, Ok
    fn scan_ok<R: Read + Seek>(_s: &mut LZIPReaderMT<R>) -> io::Result<()> { Ok(()) }

    /// C10.bound / C10.drop for the LZIP MT reader: no worker is started before the first read; drop as for the others.
    #[kani::proof]
    #[kani::unwind(4)]
    #[kani::stub(LZIPReaderMT::spawn_worker_thread, spawn_stub)]
    #[kani::stub(LZIPReaderMT::scan_members, scan_ok)]
    #[kani::stub(std::sync::Condvar::notify_one, notify_stub)]
    #[kani::stub(std::sync::Condvar::notify_all, notify_stub)]
    #[kani::stub(alloc::sync::Arc::drop_slow, vk::arc_leak_stub)]
    fn c10_new_drop_r_lzip() {
        unsafe { SPAWNED = 0; }
        let n: u32 = vk::any();
        let data = [0u8; 4];
        let r = match LZIPReaderMT::new(Cursor::new(&data[..]), n) { Ok(r) => r, Err(_) => { assert!(false); return; } };
        assert!(r.max_workers == if n < 1 { 1 } else if n > 256 { 256 } else { n });
        assert!(unsafe { SPAWNED } <= 1);
        assert!(r.next_sequence_to_dispatch == 0 && r.next_sequence_to_return == 0);
        let h = r.work_queue.worker();
        let flag = Arc::clone(&r.shutdown_flag);
        assert!(!flag.load(Ordering::Acquire) && !h.is_closed_and_empty());
        let already: bool = vk::any();
        flag.store(already, Ordering::Release);
        drop(r);
        assert!(flag.load(Ordering::Acquire), "shutdown flag not set by drop");
        assert!(h.is_closed_and_empty(), "work queue left open by drop: idle workers sleep forever");
        assert!(h.steal().is_none());
    }
