    // ===== src/lzip/reader_mt.rs : coordinator (sequential part) =====

    pub(crate) static mut SPAWNED: u32 = 0;
    pub(crate) fn spawn_stub<R: Read + Seek>(_s: &mut LZIPReaderMT<R>) { unsafe { SPAWNED += 1; } }
    fn notify_stub(_c: &std::sync::Condvar) {}
    /// scan_members by contract for the constructor harness (its own body: C08.scan): member table filled, Ok
    fn scan_ok<R: Read + Seek>(_s: &mut LZIPReaderMT<R>) -> io::Result<()> { Ok(()) }

    /// C10.bound / C10.drop for the LZIP MT reader: no worker is started before the first read; drop as for the others.
    #[kani::proof]
    #[kani::unwind(4)]
    #[kani::stub(LZIPReaderMT::spawn_worker_thread, spawn_stub)]
    #[kani::stub(LZIPReaderMT::scan_members, scan_ok)]
    #[kani::stub(std::sync::Condvar::notify_one, notify_stub)]
    #[kani::stub(std::sync::Condvar::notify_all, notify_stub)]
    #[kani::stub(alloc::sync::Arc::drop_slow, vk::arc_leak_stub)]
    fn c10_new_drop_r_lzip() {
        unsafe { SPAWNED = 0; }
        let n: u32 = vk::any();
        let data = [0u8; 4];
        let r = match LZIPReaderMT::new(Cursor::new(&data[..]), n) { Ok(r) => r, Err(_) => { assert!(false); return; } };
        assert!(r.max_workers == if n < 1 { 1 } else if n > 256 { 256 } else { n });
        assert!(unsafe { SPAWNED } <= 1);
        assert!(r.next_sequence_to_dispatch == 0 && r.next_sequence_to_return == 0);
        let h = r.work_queue.worker();
        let flag = Arc::clone(&r.shutdown_flag);
        assert!(!flag.load(Ordering::Acquire) && !h.is_closed_and_empty());
        let already: bool = vk::any();
        flag.store(already, Ordering::Release);
        drop(r);
        assert!(flag.load(Ordering::Acquire), "shutdown flag not set by drop");
        assert!(h.is_closed_and_empty(), "work queue left open by drop: idle workers sleep forever");
        assert!(h.steal().is_none());
    }

    // ---------------------------------------------------------------- C12.mt.read: read() over the sequence of decoded units
    pub(crate) static mut NEXT_CALLS: u32 = 0;
    /// get_next_uncompressed_chunk by contract (own body: reassembly, C08.order): hands out the decoded units in order,
    /// then None. Script: unit 0 = [0x61, 0x62], unit 1 = EMPTY (an empty member / unit in the middle), unit 2 = [0x63].
    pub(crate) fn next_chunk_script<R: Read + Seek>(_s: &mut LZIPReaderMT<R>) -> io::Result<Option<Vec<u8>>> {
        unsafe {
            NEXT_CALLS += 1;
            let mut v = Vec::new();
            match NEXT_CALLS {
                1 => { v.push(0x61); v.push(0x62); Ok(Some(v)) }
                2 => Ok(Some(v)),
                3 => { v.push(0x63); Ok(Some(v)) }
                _ => Ok(None),
            }
        }
    }
    /// read() returns the bytes of the units in order; Ok(0) - which callers take for end of data - is returned only
    /// after the unit sequence is exhausted, never for an empty unit in the middle; a zero-length read changes nothing.
    #[kani::proof]
    #[kani::unwind(6)]
    #[kani::stub(LZIPReaderMT::spawn_worker_thread, spawn_stub)]
    #[kani::stub(LZIPReaderMT::get_next_uncompressed_chunk, next_chunk_script)]
    #[kani::stub(LZIPReaderMT::scan_members, scan_ok)]
    #[kani::stub(alloc::sync::Arc::drop_slow, vk::arc_leak_stub)]
    fn c12_mt_read_lzip_empty_unit_in_the_middle() {
        unsafe { NEXT_CALLS = 0; SPAWNED = 0; }
        let mut r = core::mem::ManuallyDrop::new(match LZIPReaderMT::new(Cursor::new(&[0u8; 4][..]), 2) { Ok(r) => r, Err(_) => { assert!(false); return; } });
        let mut out = [0u8; 8];
        let mut got = 0usize;
        assert!(matches!(r.read(&mut out[..0]), Ok(0)) && unsafe { NEXT_CALLS } == 0);
        let mut rounds = 0;
        while rounds < 4 {
            match r.read(&mut out[got..got + 2]) {
                Ok(0) => { assert!(unsafe { NEXT_CALLS } == 4, "end of data reported before the unit sequence was exhausted"); break; }
                Ok(n) => { got += n; }
                Err(_) => { assert!(false); }
            }
            rounds += 1;
        }
        assert!(got == 3 && out[0] == 0x61 && out[1] == 0x62 && out[2] == 0x63);
        assert!(matches!(r.read(&mut out[..2]), Ok(0)));
    }

    // ---------------------------------------------------------------- C08.scan / C06.lzip: backward member scan
    /// seekable source over a fixed array that counts its calls: the scan may use at most a number of I/O calls linear in
    /// the file size (each accepted member costs 2 seeks + 2 reads and consumes >= 1 byte of the file)
    pub(crate) struct SeekSrc<const N: usize> { pub(crate) buf: [u8; N], pub(crate) pos: u64, pub(crate) calls: u32 }
    impl<const N: usize> Read for SeekSrc<N> {
        fn read(&mut self, out: &mut [u8]) -> io::Result<usize> {
            self.calls += 1;
            assert!(self.calls <= 4 * N as u32 + 8, "member scan does not make progress (unbounded I/O on a finite file)");
            let p = if self.pos > N as u64 { N } else { self.pos as usize };
            let avail = N - p;
            let n = if out.len() < avail { out.len() } else { avail };
            let mut i = 0;
            while i < n { out[i] = self.buf[p + i]; i += 1; }
            self.pos += n as u64;
            Ok(n)
        }
    }
    impl<const N: usize> Seek for SeekSrc<N> {
        fn seek(&mut self, to: SeekFrom) -> io::Result<u64> {
            self.calls += 1;
            assert!(self.calls <= 4 * N as u32 + 8, "member scan does not make progress (unbounded I/O on a finite file)");
            match to {
                SeekFrom::Start(p) => { self.pos = p; }
                SeekFrom::End(d) => { assert!(d <= 0 && (-d) as u64 <= N as u64); self.pos = (N as i64 + d) as u64; }
                SeekFrom::Current(d) => { self.pos = (self.pos as i64 + d) as u64; }
            }
            Ok(self.pos)
        }
    }
    /// io::Error::new(kind, msg) boxes a String (drop glue explodes under CBMC): kind-preserving stub, message dropped
    fn io_err_new_stub<E>(kind: io::ErrorKind, _e: E) -> io::Error where E: Into<Box<dyn std::error::Error + Send + Sync>> { io::Error::from(kind) }
    /// scan_members on EVERY file of N bytes: returns (no panic, no arithmetic overflow, bounded I/O); Ok => the members
    /// are in forward order, contiguous, the last one ends at the end of the file, each starts with the magic and is
    /// non-empty, and none starts before offset 0.
    fn lzip_scan<const N: usize>() {
        unsafe { SPAWNED = 0; }
        let data: [u8; N] = vk::any();
        let (tx, rx) = mpsc::channel::<ResultUnit>();
        let mut r = core::mem::ManuallyDrop::new(LZIPReaderMT {
            inner: Some(SeekSrc::<N> { buf: data, pos: 0, calls: 0 }), members: Vec::new(), result_rx: rx, result_tx: tx,
            next_sequence_to_dispatch: 0, next_sequence_to_return: 0, last_sequence_id: None, out_of_order_chunks: BTreeMap::new(),
            current_chunk: Cursor::new(Vec::new()), shutdown_flag: Arc::new(AtomicBool::new(false)), error_store: Arc::new(Mutex::new(None)),
            state: State::Dispatching, work_queue: WorkStealingQueue::new(), active_workers: Arc::new(AtomicU32::new(0)), max_workers: 1,
            worker_handles: Vec::new() });
        let res = r.scan_members();
        if res.is_ok() {
            let m = &r.members;
            assert!(m.len() >= 1 && m.len() <= N);
            let last = &m[m.len() - 1];
            assert!(last.start_pos + last.compressed_size == N as u64);
            let mut i = 0;
            while i < 8 {
                if i < m.len() {
                    assert!(m[i].compressed_size >= 1, "empty member record");
                    let s = m[i].start_pos as usize;
                    assert!(s + 4 <= N && data[s] == b'L' && data[s + 1] == b'Z' && data[s + 2] == b'I' && data[s + 3] == b'P');
                    if i + 1 < m.len() { assert!(m[i].start_pos + m[i].compressed_size == m[i + 1].start_pos, "members overlap or leave a gap"); }
                }
                i += 1;
            }
            assert!(r.member_count() == m.len());
        }
        assert!(r.inner.is_some() || res.is_err());
    }
    #[kani::proof]
    #[kani::unwind(22)]
    //@ERR
    #[kani::stub(LZIPReaderMT::spawn_worker_thread, spawn_stub)]
    fn c08_lzip_scan_n26() { lzip_scan::<26>(); }
    #[kani::proof]
    #[kani::unwind(22)]
    //@ERR
    #[kani::stub(LZIPReaderMT::spawn_worker_thread, spawn_stub)]
    fn c08_lzip_scan_n30() { lzip_scan::<30>(); }
