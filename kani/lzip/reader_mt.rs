    // ===== src/lzip/reader_mt.rs : coordinator (sequential part) =====

    pub(crate) static mut SPAWNED: u32 = 0;
    pub(crate) fn spawn_stub<R: Read + Seek>(_s: &mut LZIPReaderMT<R>) { unsafe { SPAWNED += 1; } }
    fn notify_stub(_c: &std::sync::Condvar) {}
    /// scan_members by contract for the constructor harness (its own body: C08.scan): member table filled, Ok
    fn scan_ok<R: Read + Seek>(_s: &mut LZIPReaderMT<R>) -> io::Result<()> { Ok(()) }

    /// C10.bound / C10.drop for the LZIP MT reader: no worker is started before the first read; drop as for the others.
    #[kani::proof]
    #[kani::unwind(4)]
    #[kani::stub(LZIPReaderMT::spawn_worker_thread, spawn_stub)]
    #[kani::stub(LZIPReaderMT::scan_members, scan_ok)]
    #[kani::stub(std::sync::Condvar::notify_one, notify_stub)]
    #[kani::stub(std::sync::Condvar::notify_all, notify_stub)]
    #[kani::stub(alloc::sync::Arc::drop_slow, vk::arc_leak_stub)]
    fn c10_new_drop_r_lzip() {
        unsafe { SPAWNED = 0; }
        let n: u32 = vk::any();
        let data = [0u8; 4];
        let r = match LZIPReaderMT::new(Cursor::new(&data[..]), n) { Ok(r) => r, Err(_) => { assert!(false); return; } };
        assert!(r.max_workers == if n < 1 { 1 } else if n > 256 { 256 } else { n });
        assert!(unsafe { SPAWNED } <= 1);
        assert!(r.next_sequence_to_dispatch == 0 && r.next_sequence_to_return == 0);
        let h = r.work_queue.worker();
        let flag = Arc::clone(&r.shutdown_flag);
        assert!(!flag.load(Ordering::Acquire) && !h.is_closed_and_empty());
        let already: bool = vk::any();
        flag.store(already, Ordering::Release);
        drop(r);
        assert!(flag.load(Ordering::Acquire), "shutdown flag not set by drop");
        assert!(h.is_closed_and_empty(), "work queue left open by drop: idle workers sleep forever");
        assert!(h.steal().is_none());
    }

    // ---------------------------------------------------------------- C12.mt.read: read() over the sequence of decoded units
    pub(crate) static mut NEXT_CALLS: u32 = 0;
    /// get_next_uncompressed_chunk by contract (own body: reassembly, C08.order): hands out the decoded units in order,
    /// then None. Script: unit 0 = [0x61, 0x62], unit 1 = EMPTY (an empty member / unit in the middle), unit 2 = [0x63].
    pub(crate) fn next_chunk_script<R: Read + Seek>(_s: &mut LZIPReaderMT<R>) -> io::Result<Option<Vec<u8>>> {
        unsafe {
            NEXT_CALLS += 1;
            let mut v = Vec::new();
            match NEXT_CALLS {
                1 => { v.push(0x61); v.push(0x62); Ok(Some(v)) }
                2 => Ok(Some(v)),
                3 => { v.push(0x63); Ok(Some(v)) }
                _ => Ok(None),
            }
        }
    }
    /// read() returns the bytes of the units in order; Ok(0) - which callers take for end of data - is returned only
    /// after the unit sequence is exhausted, never for an empty unit in the middle; a zero-length read changes nothing.
    #[kani::proof]
    #[kani::unwind(6)]
    #[kani::stub(LZIPReaderMT::spawn_worker_thread, spawn_stub)]
    #[kani::stub(LZIPReaderMT::get_next_uncompressed_chunk, next_chunk_script)]
    #[kani::stub(LZIPReaderMT::scan_members, scan_ok)]
    #[kani::stub(alloc::sync::Arc::drop_slow, vk::arc_leak_stub)]
    fn c12_mt_read_lzip_empty_unit_in_the_middle() {
        unsafe { NEXT_CALLS = 0; SPAWNED = 0; }
        let mut r = core::mem::ManuallyDrop::new(match LZIPReaderMT::new(Cursor::new(&[0u8; 4][..]), 2) { Ok(r) => r, Err(_) => { assert!(false); return; } });
        let mut out = [0u8; 8];
        let mut got = 0usize;
        assert!(matches!(r.read(&mut out[..0]), Ok(0)) && unsafe { NEXT_CALLS } == 0);
        let mut rounds = 0;
        while rounds < 4 {
            match r.read(&mut out[got..got + 2]) {
                Ok(0) => { assert!(unsafe { NEXT_CALLS } == 4, "end of data reported before the unit sequence was exhausted"); break; }
                Ok(n) => { got += n; }
                Err(_) => { assert!(false); }
            }
            rounds += 1;
        }
        assert!(got == 3 && out[0] == 0x61 && out[1] == 0x62 && out[2] == 0x63);
        assert!(matches!(r.read(&mut out[..2]), Ok(0)));
    }
