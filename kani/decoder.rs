    // ===== src/decoder.rs =====
    pub(crate) fn len_decode<R: RangeReader>(c: &mut LengthCoder, pos_state: usize, rc: &mut RangeDecoder<R>) -> i32 { c.decode(pos_state, rc) }

    /// scaffolding: an LZMADecoder with tagged coder and length decoders; the literal decoder stays zeroed (not used
    /// by decode_match / decode_rep_match); must be forgotten, never dropped
    pub(crate) fn mk_decoder_tagged(pb: usize, state: u8, reps: [i32; crate::REPS]) -> LZMADecoder {
        unsafe {
            let mut m = core::mem::MaybeUninit::<LZMADecoder>::zeroed();
            let p = m.as_mut_ptr();
            core::ptr::addr_of_mut!((*p).coder).write(crate::vk::plain_coder(pb, state, reps));
            core::ptr::addr_of_mut!((*p).match_len_decoder).write(LengthCoder::new());
            core::ptr::addr_of_mut!((*p).rep_len_decoder).write(LengthCoder::new());
            m.assume_init()
        }
    }
    pub(crate) fn dec_rep_match<R: RangeReader>(d: &mut LZMADecoder, ps: u32, rc: &mut RangeDecoder<R>) -> u32 { d.decode_rep_match(ps, rc) }
    pub(crate) fn dec_match<R: RangeReader>(d: &mut LZMADecoder, ps: u32, rc: &mut RangeDecoder<R>) -> u32 { d.decode_match(ps, rc) }
    pub(crate) fn dec_coder(d: &LZMADecoder) -> (&[i32; crate::REPS], u8) { (&d.coder.reps, d.coder.state.get()) }
    pub(crate) fn dec_parts(d: &LZMADecoder) -> (&crate::LZMACoder, &LengthCoder, &LengthCoder) { (&d.coder, &d.match_len_decoder, &d.rep_len_decoder) }

    /// scaffolding for the literal mirror: a fresh literal sub-decoder behind an opaque wrapper (its type is private)
    pub(crate) struct LitDec(LiteralSubDecoder);
    impl LitDec {
        pub(crate) fn new() -> Self { LitDec(LiteralSubDecoder::new()) }
        pub(crate) fn probs(&self) -> &crate::LiteralSubCoder { &self.0.coder }
        pub(crate) fn decode<R: RangeReader>(&mut self, coder: &mut crate::LZMACoder, lz: &mut LZDecoder, rc: &mut RangeDecoder<R>) -> crate::Result<()> {
            self.0.decode(coder, lz, rc)
        }
    }

    // ---- LZMADecoder::decode by contract for the reader-level end-of-stream harness (C16.l1.end)
    pub(crate) static mut DEC_CALLS: u32 = 0;
    pub(crate) static mut DEC_BYTES_FIRST: usize = 0;
    /// call 1 (only if DEC_BYTES_FIRST > 0): that many literal bytes are decoded into the dictionary and - as the real
    /// decode does on its Ok path - the range decoder is normalised; the following call meets the end marker: a match
    /// with distance 0xFFFFFFFF, which the dictionary refuses ("dist overflow") BEFORE the trailing normalise of decode.
    pub(crate) fn dec_script_stub<R: RangeReader>(s: &mut LZMADecoder, lz: &mut LZDecoder, rc: &mut RangeDecoder<R>) -> crate::Result<()> {
        unsafe {
            DEC_CALLS += 1;
            if DEC_CALLS == 1 && DEC_BYTES_FIRST > 0 {
                let mut i = 0;
                while i < DEC_BYTES_FIRST { if lz.has_space() { lz.put_byte(0x41 + i as u8); } i += 1; }
                rc.normalize();
                return Ok(());
            }
        }
        s.coder.reps[0] = -1;
        Err(crate::vk::err_other("dist overflow"))
    }
