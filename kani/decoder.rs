    // ===== src/decoder.rs =====
    pub(crate) fn len_decode<R: RangeReader>(c: &mut LengthCoder, pos_state: usize, rc: &mut RangeDecoder<R>) -> i32 { c.decode(pos_state, rc) }
