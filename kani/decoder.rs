    // ===== src/decoder.rs =====
    pub(crate) fn len_decode<R: RangeReader>(c: &mut LengthCoder, pos_state: usize, rc: &mut RangeDecoder<R>) -> i32 { c.decode(pos_state, rc) }

    /// scaffolding: an LZMADecoder with tagged coder and length decoders; the literal decoder stays zeroed (not used
    /// by decode_match / decode_rep_match); must be forgotten, never dropped
    pub(crate) fn mk_decoder_tagged(pb: usize, state: u8, reps: [i32; crate::REPS]) -> LZMADecoder {
        unsafe {
            let mut m = core::mem::MaybeUninit::<LZMADecoder>::zeroed();
            let p = m.as_mut_ptr();
            core::ptr::addr_of_mut!((*p).coder).write(crate::vk::plain_coder(pb, state, reps));
            core::ptr::addr_of_mut!((*p).match_len_decoder).write(LengthCoder::new());
            core::ptr::addr_of_mut!((*p).rep_len_decoder).write(LengthCoder::new());
            m.assume_init()
        }
    }
    pub(crate) fn dec_rep_match<R: RangeReader>(d: &mut LZMADecoder, ps: u32, rc: &mut RangeDecoder<R>) -> u32 { d.decode_rep_match(ps, rc) }
    pub(crate) fn dec_match<R: RangeReader>(d: &mut LZMADecoder, ps: u32, rc: &mut RangeDecoder<R>) -> u32 { d.decode_match(ps, rc) }
    pub(crate) fn dec_coder(d: &LZMADecoder) -> (&[i32; crate::REPS], u8) { (&d.coder.reps, d.coder.state.get()) }
    pub(crate) fn dec_parts(d: &LZMADecoder) -> (&crate::LZMACoder, &LengthCoder, &LengthCoder) { (&d.coder, &d.match_len_decoder, &d.rep_len_decoder) }

    /// scaffolding for the literal mirror: a fresh literal sub-decoder behind an opaque wrapper (its type is private)
    pub(crate) struct LitDec(LiteralSubDecoder);
    impl LitDec {
        pub(crate) fn new() -> Self { LitDec(LiteralSubDecoder::new()) }
        pub(crate) fn probs(&self) -> &crate::LiteralSubCoder { &self.0.coder }
        pub(crate) fn decode<R: RangeReader>(&mut self, coder: &mut crate::LZMACoder, lz: &mut LZDecoder, rc: &mut RangeDecoder<R>) -> crate::Result<()> {
            self.0.decode(coder, lz, rc)
        }
    }
