    // ===== src/lzip.rs : dictionary size byte, header, trailer =====

    fn spec_lzip_decode(b: u8) -> Option<u32> {
        // lzip manual, "File format": bits 4-0 = log2(base), bits 7-5 = numerator of 1/16 fractions subtracted
        let lg = (b & 0x1F) as u32;
        let fr = (b >> 5) as u32;
        if lg < 12 || lg > 29 { return None; }
        let base = 1u32 << lg;
        let d = base - (base / 16) * fr;
        if d < 4096 { return None; }
        Some(d)
    }

    /// C02.lzip.dict: ∀ d:u32 — Ok ⇔ 4 KiB ≤ d ≤ 512 MiB; the header dictionary covers the encoder's
    /// dictionary (decode(encode(d)) ≥ d), exactly-representable sizes are kept exactly.
    #[kani::proof]
    #[kani::unwind(2)]
    #[kani::stub(crate::error_invalid_data, crate::vk::err_invalid_data)]
    #[kani::stub(crate::error_invalid_input, crate::vk::err_invalid_input)]
    fn c02_lzip_dict_roundtrip() {
        let d: u32 = vk::any();
        match encode_dict_size(d) {
            Err(e) => {
                assert!(d < MIN_DICT_SIZE || d > MAX_DICT_SIZE);
                assert!(vk::kind_of(&e) == vk::Kind::InvalidInput);
            }
            Ok(b) => {
                assert!(d >= MIN_DICT_SIZE && d <= MAX_DICT_SIZE);
                let r = decode_dict_size(b);
                match r {
                    Ok(back) => {
                        assert!(back >= d);           // decoder window covers every distance the encoder may use
                        assert!(back / 2 < d || d == MIN_DICT_SIZE); // and is not wastefully larger than 2x
                        assert!(Some(back) == spec_lzip_decode(b));
                    }
                    Err(_) => assert!(false),
                }
                crate::vcover!(d == 0x1300_0000);
                crate::vcover!(d == 4096);
            }
        }
    }

    #[kani::proof]
    #[kani::unwind(2)]
    #[kani::should_panic]
    #[kani::stub(crate::error_invalid_data, crate::vk::err_invalid_data)]
    #[kani::stub(crate::error_invalid_input, crate::vk::err_invalid_input)]
    fn c02_lzip_dict_canary() {
        let d: u32 = vk::any();
        if let Ok(b) = encode_dict_size(d) {
            if decode_dict_size(b).is_ok() { assert!(false); }
        }
    }

    /// C06.lzip / C03: decode_dict_size is total on all 256 bytes and equals the spec transcription.
    #[kani::proof]
    #[kani::unwind(2)]
    #[kani::stub(crate::error_invalid_data, crate::vk::err_invalid_data)]
    fn c06_lzip_dict_decode_total() {
        let b: u8 = vk::any();
        match decode_dict_size(b) {
            Ok(d) => {
                assert!(spec_lzip_decode(b) == Some(d));
                assert!(d >= MIN_DICT_SIZE && d <= MAX_DICT_SIZE);
            }
            Err(e) => {
                assert!(spec_lzip_decode(b).is_none());
                assert!(vk::kind_of(&e) == vk::Kind::InvalidData);
            }
        }
    }
