    // ===== src/no_std.rs : crate-local Read / Write (no_std build) =====

    /// C14.nostd / C05.exact: default read_exact over a source that may deliver short reads, report Interrupted (retried)
    /// or fail at a chosen call: Ok <=> exactly buf.len() bytes were delivered, in order; EOF before that => Err(EOF); a
    /// hard error is returned as it is; nothing is read beyond the request. (std's read_exact has this documented
    /// contract; the crate's own version is what runs in no_std builds.)
    #[kani::proof]
    #[kani::unwind(12)]
    fn c14_nostd_read_exact() {
        let data: [u8; 6] = vk::any();
        let avail: usize = vk::any();
        vk::assume(avail <= 6);
        let mut src = vk::IoAny::<6>::new(data, avail);
        src.short = true;
        src.interrupts_left = 2;
        src.fail_at = vk::any();
        let mut out = [0u8; 4];
        let r = src.read_exact(&mut out);
        match r {
            Ok(()) => {
                assert!(src.pos == 4 && avail >= 4);
                assert!(out[0] == data[0] && out[1] == data[1] && out[2] == data[2] && out[3] == data[3]);
            }
            Err(e) => {
                match vk::kind_of(&e) {
                    vk::Kind::Eof => assert!(avail < 4 && src.pos == avail, "EOF reported although the source had enough bytes"),
                    vk::Kind::Unknown => assert!(src.calls > src.fail_at),
                    _ => assert!(false, "read_exact returned an error kind the source never produced (Interrupted must be retried)"),
                }
            }
        }
        assert!(src.pos <= 4);
        crate::vcover!(r.is_ok() && src.calls >= 3);
    }

    /// write_all over a sink that accepts short writes, reports Interrupted (retried) or fails at a chosen call:
    /// Ok <=> every byte reached the sink exactly once, in order; the sink's error is returned as it is.
    #[kani::proof]
    #[kani::unwind(12)]
    fn c14_nostd_write_all() {
        let data: [u8; 4] = vk::any();
        let mut sink = vk::SinkAny::<8>::new();
        sink.short = true;
        sink.interrupts_left = 2;
        sink.fail_at = vk::any();
        let r = sink.write_all(&data);
        match r {
            Ok(()) => {
                assert!(sink.len == 4);
                assert!(sink.buf[0] == data[0] && sink.buf[1] == data[1] && sink.buf[2] == data[2] && sink.buf[3] == data[3]);
            }
            Err(e) => { assert!(vk::kind_of(&e) == vk::Kind::Unknown && sink.calls > sink.fail_at); assert!(sink.len < 4); }
        }
        let mut i = 0;
        while i < 4 { if i < sink.len { assert!(sink.buf[i] == data[i]); } i += 1; }
    }

    /// `impl Read for &[u8]` and `impl Write for &mut [u8]`: copy min(len) bytes, advance, never touch anything else;
    /// a full `&mut [u8]` sink reports WriteZero (so write_all fails instead of spinning).
    #[kani::proof]
    #[kani::unwind(8)]
    fn c14_nostd_slice_io() {
        let data: [u8; 5] = vk::any();
        let mut s: &[u8] = &data[..];
        let mut out = [0u8; 3];
        assert!(matches!(s.read(&mut out), Ok(3)) && out[0] == data[0] && out[2] == data[2] && s.len() == 2);
        assert!(matches!(s.read(&mut out), Ok(2)) && out[0] == data[3] && out[1] == data[4] && s.len() == 0);
        assert!(matches!(s.read(&mut out), Ok(0)));
        let mut s2: &[u8] = &data[..];
        let mut big = [0u8; 6];
        assert!(matches!(vk::kind_of(&s2.read_exact(&mut big).unwrap_err()), vk::Kind::Eof));
        let mut store = [0u8; 4];
        {
            let mut w: &mut [u8] = &mut store[..];
            assert!(matches!(w.write(&data), Ok(4)));
            assert!(matches!(vk::kind_of(&w.write(&data).unwrap_err()), vk::Kind::WriteZero));
            assert!(matches!(w.write(&data[..0]), Ok(0)));
        }
        assert!(store[0] == data[0] && store[3] == data[3]);
        let mut store2 = [0u8; 4];
        let mut w2: &mut [u8] = &mut store2[..];
        assert!(matches!(vk::kind_of(&w2.write_all(&data).unwrap_err()), vk::Kind::WriteZero));
    }
