    // ===== src/xz/writer.rs : stream header / footer / block header / index framing =====
    use crate::xz::reader::verif_kani::{rd_block_header, rd_stream_footer, rd_stream_header, rd_index};

    fn check_of(i: u8) -> CheckType {
        match i { 0 => CheckType::None, 1 => CheckType::Crc32, 2 => CheckType::Crc64, _ => CheckType::Sha256 }
    }

    fn opts(check: CheckType, dict: u32) -> XZOptions {
        XZOptions {
            lzma_options: LZMAOptions { dict_size: dict, lc: 3, lp: 0, pb: 2, mode: crate::EncodeMode::Fast,
                nice_len: 32, mf: crate::MFType::HC4, depth_limit: 4, preset_dict: None },
            check_type: check, block_size: None, filters: Vec::new(),
        }
    }

    /// C02.xz.shdr / C03.xz.layout: the 12 stream header bytes equal the xz spec layout and parse back to the
    /// same check type, for each of the four check types.
    fn xz_stream_header(check: CheckType) {
        let mut w = XZWriter::new(vk::Sink::<16>::new(), opts(check, 1 << 16)).unwrap();
        assert!(w.write_stream_header().is_ok());
        assert!(w.header_written);
        // idempotent
        assert!(w.write_stream_header().is_ok());
        assert!(w.compressed_bytes_written.get() == 12);
        let sink = w.into_inner();
        assert!(sink.len == 12);
        let b = sink.buf;
        assert!(b[0] == 0xFD && b[1] == b'7' && b[2] == b'z' && b[3] == b'X' && b[4] == b'Z' && b[5] == 0);
        assert!(b[6] == 0 && b[7] == check as u8);
        let crc = CRC32.checksum(&[b[6], b[7]]);
        assert!(b[8..12] == crc.to_le_bytes());
        let parsed = rd_stream_header(&sink.buf[..12]);
        assert!(matches!(parsed, Ok(c) if c == check));
    }
    #[kani::proof]
    #[kani::unwind(14)]
    #[kani::stub(crate::error_invalid_data, crate::vk::err_invalid_data)]
    #[kani::stub(crate::error_eof, crate::vk::err_eof)]
    fn c02_xz_stream_header_none() { xz_stream_header(check_of(0)); }
    #[kani::proof]
    #[kani::unwind(14)]
    #[kani::stub(crate::error_invalid_data, crate::vk::err_invalid_data)]
    #[kani::stub(crate::error_eof, crate::vk::err_eof)]
    fn c02_xz_stream_header_crc32() { xz_stream_header(check_of(1)); }
    #[kani::proof]
    #[kani::unwind(14)]
    #[kani::stub(crate::error_invalid_data, crate::vk::err_invalid_data)]
    #[kani::stub(crate::error_eof, crate::vk::err_eof)]
    fn c02_xz_stream_header_crc64() { xz_stream_header(check_of(2)); }
    #[kani::proof]
    #[kani::unwind(66)]
    #[kani::stub(crate::error_invalid_data, crate::vk::err_invalid_data)]
    #[kani::stub(crate::error_eof, crate::vk::err_eof)]
    fn c02_xz_stream_header_sha256() { xz_stream_header(check_of(3)); }

    /// C02.xz.index / C03.xz.layout: write_index ↔ Index::parse and write_stream_footer ↔ StreamFooter::parse for
    /// n records with arbitrary sizes of the given encoded-length classes: same record count and sizes come back,
    /// the reader consumes exactly the bytes written, padding to a multiple of 4, backward size = index size/4 - 1,
    /// footer flags = header flags.  `encode_multibyte_integer` is replaced by its class-k contract (proved against
    /// the real function in C02.mbi) so that CBMC sees concrete lengths.
    fn xz_index_footer(n: usize, check: CheckType, ku: usize, kv: usize) {
        use crate::xz::verif_kani::{mbi_in_class, mbi_schedule};
        let mut w = XZWriter::new(vk::Sink::<64>::new(), opts(check, 1 << 16)).unwrap();
        let mut recs: [(u64, u64); 2] = [(0, 0); 2];
        let mut i = 0;
        while i < n {
            let u: u64 = vk::any();
            let v: u64 = vk::any();
            vk::assume(u >= 1 && mbi_in_class(u, ku) && mbi_in_class(v, kv));
            recs[i] = (u, v);
            w.index_records.push(IndexRecord { unpadded_size: u, uncompressed_size: v });
            i += 1;
        }
        if n == 0 { mbi_schedule(&[1]); } else if n == 1 { mbi_schedule(&[1, ku, kv]); } else { mbi_schedule(&[1, ku, kv, ku, kv]); }
        assert!(w.write_index().is_ok());
        let index_len = w.compressed_bytes_written.get() as usize;
        assert!(index_len % 4 == 0 && index_len >= 8);
        assert!(index_len == (1 + 1 + n * (ku + kv) + 3) / 4 * 4 + 4);
        assert!(w.write_stream_footer().is_ok());
        let total = w.compressed_bytes_written.get() as usize;
        assert!(total == index_len + 12);
        let sink = w.into_inner();
        assert!(sink.len == total);
        assert!(sink.buf[0] == 0);          // index indicator
        // writer output = spec bytes (the reader half is proved against the same spec in c02_xz_index_parse_*)
        let mut spec = [0u8; 64];
        let slen = crate::xz::reader::verif_kani::spec_index(&mut spec, n, &recs, ku, kv);
        assert!(slen == index_len);
        let mut j = 0;
        while j < 44 { if j < index_len { assert!(sink.buf[j] == spec[j]); } j += 1; }
        // footer = spec footer: crc32(backward,flags) | backward | flags | "YZ"
        let backward = (index_len / 4 - 1) as u32;
        let bb = backward.to_le_bytes();
        let flags = [0u8, check as u8];
        let crc = CRC32.checksum(&[bb[0], bb[1], bb[2], bb[3], flags[0], flags[1]]).to_le_bytes();
        let f = &sink.buf[index_len..total];
        assert!(f[0..4] == crc && f[4..8] == bb && f[8..10] == flags);
        assert!(sink.buf[total - 2] == b'Y' && sink.buf[total - 1] == b'Z');
    }
    #[kani::proof]
    #[kani::unwind(66)]
    #[kani::stub(crate::error_invalid_data, crate::vk::err_invalid_data)]
    #[kani::stub(crate::error_eof, crate::vk::err_eof)]
    #[kani::stub(crate::xz::encode_multibyte_integer, crate::xz::verif_kani::encode_mbi_class_stub)]
    fn c02_xz_index_footer_n0_1_1() { xz_index_footer(0, CheckType::Crc32, 1, 1); }
    #[kani::proof]
    #[kani::unwind(66)]
    #[kani::stub(crate::error_invalid_data, crate::vk::err_invalid_data)]
    #[kani::stub(crate::error_eof, crate::vk::err_eof)]
    #[kani::stub(crate::xz::encode_multibyte_integer, crate::xz::verif_kani::encode_mbi_class_stub)]
    fn c02_xz_index_footer_n1_1_1() { xz_index_footer(1, CheckType::Crc64, 1, 1); }
    #[kani::proof]
    #[kani::unwind(66)]
    #[kani::stub(crate::error_invalid_data, crate::vk::err_invalid_data)]
    #[kani::stub(crate::error_eof, crate::vk::err_eof)]
    #[kani::stub(crate::xz::encode_multibyte_integer, crate::xz::verif_kani::encode_mbi_class_stub)]
    fn c02_xz_index_footer_n1_2_1() { xz_index_footer(1, CheckType::None, 2, 1); }
    #[kani::proof]
    #[kani::unwind(66)]
    #[kani::stub(crate::error_invalid_data, crate::vk::err_invalid_data)]
    #[kani::stub(crate::error_eof, crate::vk::err_eof)]
    #[kani::stub(crate::xz::encode_multibyte_integer, crate::xz::verif_kani::encode_mbi_class_stub)]
    fn c02_xz_index_footer_n1_3_3() { xz_index_footer(1, CheckType::Crc32, 3, 3); }
    #[kani::proof]
    #[kani::unwind(66)]
    #[kani::stub(crate::error_invalid_data, crate::vk::err_invalid_data)]
    #[kani::stub(crate::error_eof, crate::vk::err_eof)]
    #[kani::stub(crate::xz::encode_multibyte_integer, crate::xz::verif_kani::encode_mbi_class_stub)]
    fn c02_xz_index_footer_n1_9_9() { xz_index_footer(1, CheckType::Sha256, 9, 9); }
    #[kani::proof]
    #[kani::unwind(66)]
    #[kani::stub(crate::error_invalid_data, crate::vk::err_invalid_data)]
    #[kani::stub(crate::error_eof, crate::vk::err_eof)]
    #[kani::stub(crate::xz::encode_multibyte_integer, crate::xz::verif_kani::encode_mbi_class_stub)]
    fn c02_xz_index_footer_n1_5_4() { xz_index_footer(1, CheckType::Crc32, 5, 4); }
    #[kani::proof]
    #[kani::unwind(66)]
    #[kani::stub(crate::error_invalid_data, crate::vk::err_invalid_data)]
    #[kani::stub(crate::error_eof, crate::vk::err_eof)]
    #[kani::stub(crate::xz::encode_multibyte_integer, crate::xz::verif_kani::encode_mbi_class_stub)]
    fn c02_xz_index_footer_n2_2_3() { xz_index_footer(2, CheckType::Crc32, 2, 3); }


    // ---------------------------------------------------------------- block protocol (payload layer by contract)
    /// C03.xz.unpadded (D9): prepare_next_block records the block start *before* the block header, so that
    /// finish_current_block's unpadded size = header + compressed data + check (xz-file-format 4.3).
    #[kani::proof]
    #[kani::unwind(8)]
    //@ERR
    //@PAYLOAD_W
    fn c03_xz_prepare_block_start() {
        let mut w = XZWriter::new(vk::Sink::<32>::new(), opts(CheckType::Crc32, 4096)).unwrap();
        assert!(w.write_stream_header().is_ok());
        assert!(w.prepare_next_block().is_ok());
        let after_header = w.compressed_bytes_written.get();
        assert!(after_header == 12 + 12);                  // 12-byte block header for a lone LZMA2 filter
        assert!(w.current_block_start_pos == 12);          // = offset of the block header in the stream
        assert!(w.block_uncompressed_size == 0);
        core::mem::forget(w);
    }

    /// C18.xz / C02.xz.acct (inductive step of XZWriter::write): from any state inside a block that already holds
    /// u <= limit bytes, one write of n bytes (any n <= 9000) leaves every block within the limit, the blocks partition
    /// the bytes in order (none lost, none duplicated, none empty), one index record per finished block with its byte count.
    /// block_size = dict_size = 4096; LZMA2 payload by contract.
    fn xz_write_step(emit: usize, limited: bool) {
        use crate::vk::{pl_reset, PL_BLOCKS, PL_CUR_IN, PL_N};
        pl_reset(emit);
        let mut o = opts(CheckType::None, 4096);
        if limited { o.block_size = core::num::NonZeroU64::new(100); }   // clamped up to the dictionary size
        let mut w = XZWriter::new(vk::Sink::<128>::new(), o).unwrap();
        if limited { assert!(w.options.block_size.unwrap().get() == 4096); }
        assert!(w.write_stream_header().is_ok());
        assert!(w.prepare_next_block().is_ok());
        let u: u64 = vk::any();
        vk::assume(u >= 1 && u <= 4096);
        w.block_uncompressed_size = u;
        w.total_uncompressed_pos = u;
        unsafe { PL_CUR_IN = u; }
        static DATA: [u8; 9000] = [0u8; 9000];
        let n: usize = vk::any();
        vk::assume(n >= 1 && n <= 9000);
        let r = w.write(&DATA[..n]);
        assert!(matches!(r, Ok(k) if k == n));
        assert!(w.total_uncompressed_pos == u + n as u64);
        let nfin = unsafe { PL_N };
        let cur = unsafe { PL_CUR_IN };
        assert!(w.block_uncompressed_size == cur);
        assert!(w.index_records.len() == nfin);
        let mut sum = cur;
        let mut i = 0;
        while i < 4 {
            if i < nfin {
                let b = unsafe { PL_BLOCKS[i] };
                assert!(b >= 1);
                if limited { assert!(b <= 4096); }
                assert!(w.index_records[i].uncompressed_size == b);
                assert!(w.index_records[i].unpadded_size == (12 + emit) as u64);   // header + compressed + check(None)
                sum += b;
            }
            i += 1;
        }
        assert!(cur >= 1);
        if limited { assert!(cur <= 4096); } else { assert!(nfin == 0); }
        assert!(sum == u + n as u64);
        crate::vcover!(nfin == 2);
        crate::vcover!(nfin == 0);
        core::mem::forget(w);
    }
    #[kani::proof]
    #[kani::unwind(7)]
    //@ERR
    //@PAYLOAD_W
    fn c18_xz_write_step_e1_lim() { xz_write_step(1, true); }
    #[kani::proof]
    #[kani::unwind(7)]
    //@ERR
    //@PAYLOAD_W
    fn c18_xz_write_step_e4_lim() { xz_write_step(4, true); }
    #[kani::proof]
    #[kani::unwind(7)]
    //@ERR
    //@PAYLOAD_W
    fn c18_xz_write_step_e3_unl() { xz_write_step(3, false); }

    /// C02.xz.index / C03.xz.unpadded / D10: whole-stream layout for concrete small histories: write(n) then finish().
    /// The stream is header | blocks | index | footer; the index (parsed by the real Index::parse) has one record per
    /// block actually opened - none for empty input - with unpadded = header+compressed+check and the block's byte count.
    fn xz_finish_layout(n: usize, emit: usize, check: CheckType, kv: usize) {
        use crate::vk::{pl_reset, PL_BLOCKS, PL_N};
        pl_reset(emit);
        let mut o = opts(check, 4096);
        o.block_size = core::num::NonZeroU64::new(4096);
        let mut w = XZWriter::new(vk::Sink::<160>::new(), o).unwrap();
        static DATA: [u8; 9000] = [7u8; 9000];
        if n > 0 {
            let r = w.write(&DATA[..n]);
            assert!(matches!(r, Ok(k) if k == n));
        }
        let sink = match w.finish() { Ok(s) => s, Err(_) => { assert!(false); return; } };
        let nblocks = unsafe { PL_N };
        assert!(nblocks == (n + 4095) / 4096);
        let clen = match check { CheckType::None => 0, CheckType::Crc32 => 4, CheckType::Crc64 => 8, CheckType::Sha256 => 32 };
        let blk = 12 + (emit + 3) / 4 * 4 + clen;
        let total = sink.len;
        // footer -> backward size -> index position
        let f = rd_stream_footer(&sink.buf[total - 12..total]);
        let (backward, flags) = match f { Ok(x) => x, Err(_) => { assert!(false); return; } };
        assert!(flags == [0, check as u8]);
        let index_len = (backward as usize + 1) * 4;
        let idx_off = total - 12 - index_len;
        assert!(idx_off == 12 + nblocks * blk);
        assert!(sink.buf[idx_off] == 0);
        // index bytes = spec index (xz-file-format 4) for the blocks really written; the reader half of the round trip is
        // C02.xz.index.r (Index::parse against the same spec function)
        let mut recs: [(u64, u64); 2] = [(0, 0); 2];
        let mut i = 0;
        while i < nblocks && i < 2 { recs[i] = ((12 + emit + clen) as u64, unsafe { PL_BLOCKS[i] }); i += 1; }
        let mut spec = [0u8; 64];
        let slen = crate::xz::reader::verif_kani::spec_index(&mut spec, nblocks, &recs, 1, kv);
        assert!(slen == index_len);
        let mut j = 0;
        while j < 16 { if j < index_len { assert!(sink.buf[idx_off + j] == spec[j]); } j += 1; }
        // first block: header at 12, payload bytes, zero padding to 4
        if nblocks >= 1 {
            let mut j = 0;
            while j < 4 { if j < emit { assert!(sink.buf[24 + j] == 0xAA); } else if j < (emit + 3) / 4 * 4 { assert!(sink.buf[24 + j] == 0); } j += 1; }
        }
    }
    #[kani::proof]
    #[kani::unwind(18)]
    //@ERR
    //@PAYLOAD_W
    fn c02_xz_finish_empty() { xz_finish_layout(0, 1, CheckType::Crc32, 1); }
    #[kani::proof]
    #[kani::unwind(18)]
    //@ERR
    //@PAYLOAD_W
    fn c02_xz_finish_n5() { xz_finish_layout(5, 2, CheckType::Crc32, 1); }
    #[kani::proof]
    #[kani::unwind(18)]
    //@ERR
    //@PAYLOAD_W
    fn c02_xz_finish_n4096() { xz_finish_layout(4096, 4, CheckType::None, 2); }
    #[kani::proof]
    #[kani::unwind(18)]
    //@ERR
    //@PAYLOAD_W
    fn c02_xz_finish_n4097() { xz_finish_layout(4097, 3, CheckType::None, 2); }
    #[kani::proof]
    #[kani::unwind(18)]
    //@ERR
    //@PAYLOAD_W
    fn c02_xz_finish_n8192() { xz_finish_layout(8192, 1, CheckType::None, 2); }

    // ---------------------------------------------------------------- block protocol with the whole chain by contract
    /// payload-layer contract for one block's filter chain + LZMA2 writer, as a `FinishableWriter`: accepts every byte it
    /// is given (ghost count per block), on `finish` emits PL_EMIT bytes to the stream. Installing it instead of the
    /// real chain keeps DeltaWriter/BCJWriter/LZMA2Writer out of the `dyn FinishableWriter` dispatch.
    struct PayloadW<W: Write> { out: SharedWriter<W> }
    impl<W: Write> Write for PayloadW<W> {
        fn write(&mut self, buf: &[u8]) -> Result<usize> {
            unsafe { crate::vk::PL_CUR_IN += buf.len() as u64; }
            Ok(buf.len())
        }
        fn flush(&mut self) -> Result<()> { Ok(()) }
    }
    impl<W: Write> FinishableWriter for PayloadW<W> {
        fn finish(mut self: Box<Self>) -> Result<()> {
            unsafe {
                assert!(crate::vk::PL_N < 4);
                crate::vk::PL_BLOCKS[crate::vk::PL_N] = crate::vk::PL_CUR_IN;
                crate::vk::PL_N += 1;
                crate::vk::PL_CUR_IN = 0;
                let data = [0xAAu8; 4];
                self.out.write_all(&data[..crate::vk::PL_EMIT])
            }
        }
    }
    /// contract stub of XZWriter::prepare_next_block (the real body is C03.xz.unpadded): block start recorded, block
    /// header written by the real write_block_header, payload chain installed, byte count reset.
    fn prepare_stub<'w, W: Write + 'w>(s: &mut XZWriter<'w, W>) -> Result<()> {
        s.writer = Box::new(SharedWriter { inner: Rc::clone(&s.original_writer), compressed_bytes_written: Rc::clone(&s.compressed_bytes_written) });
        s.current_block_start_pos = s.compressed_bytes_written.get();
        s.write_block_header()?;
        s.writer = Box::new(PayloadW { out: SharedWriter { inner: Rc::clone(&s.original_writer), compressed_bytes_written: Rc::clone(&s.compressed_bytes_written) } });
        s.block_uncompressed_size = 0;
        Ok(())
    }

    /// C02.xz.index / D10: finishing a writer that never received data produces the empty stream of the xz specification:
    /// stream header | index with zero records | stream footer (32 bytes), which the crate's own reader accepts as empty.
    #[kani::proof]
    #[kani::unwind(14)]
    //@ERR
    fn c02_xz_finish_empty_stream() {
        let w = XZWriter::new(vk::Sink::<64>::new(), opts(CheckType::Crc64, 4096)).unwrap();
        let sink = match w.finish() { Ok(s) => s, Err(_) => { assert!(false); return; } };
        assert!(sink.len == 32);
        let b = &sink.buf;
        assert!(b[12] == 0 && b[13] == 0 && b[14] == 0 && b[15] == 0);     // index indicator, 0 records, padding
        assert!(b[16..20] == CRC32.checksum(&b[12..16]).to_le_bytes());
        let f = rd_stream_footer(&sink.buf[20..32]);
        assert!(matches!(f, Ok((1, fl)) if fl == [0, CheckType::Crc64 as u8]));
    }

    /// C18.xz / C02.xz.acct (inductive step of XZWriter::write, chain by contract): from any state inside a block that
    /// already holds u <= limit bytes, one write of n bytes (any n <= 9000): every block stays within
    /// max(block_size, dict_size) = 4096, the blocks partition the bytes in order (none empty), one index record per
    /// finished block with its byte count and unpadded size = header + compressed + check.
    fn xz_write_step2(emit: usize, limited: bool) {
        use crate::vk::{pl_reset, PL_BLOCKS, PL_CUR_IN, PL_N};
        pl_reset(emit);
        let mut o = opts(CheckType::None, 4096);
        if limited { o.block_size = core::num::NonZeroU64::new(100); }
        let mut w = XZWriter::new(vk::Sink::<128>::new(), o).unwrap();
        if limited { assert!(w.options.block_size.unwrap().get() == 4096); }
        assert!(w.write_stream_header().is_ok());
        assert!(w.prepare_next_block().is_ok());
        let u: u64 = vk::any();
        vk::assume(u >= 1 && u <= 4096);
        w.block_uncompressed_size = u;
        w.total_uncompressed_pos = u;
        unsafe { PL_CUR_IN = u; }
        static DATA: [u8; 9000] = [0u8; 9000];
        let n: usize = vk::any();
        vk::assume(n >= 1 && n <= 9000);
        let r = w.write(&DATA[..n]);
        assert!(matches!(r, Ok(k) if k == n));
        assert!(w.total_uncompressed_pos == u + n as u64);
        let nfin = unsafe { PL_N };
        let cur = unsafe { PL_CUR_IN };
        assert!(w.block_uncompressed_size == cur);
        assert!(w.index_records.len() == nfin);
        let mut sum = cur;
        let mut i = 0;
        while i < 4 {
            if i < nfin {
                let b = unsafe { PL_BLOCKS[i] };
                assert!(b >= 1);
                if limited { assert!(b <= 4096); }
                assert!(w.index_records[i].uncompressed_size == b);
                assert!(w.index_records[i].unpadded_size == (12 + emit) as u64);
                sum += b;
            }
            i += 1;
        }
        assert!(cur >= 1);
        if limited { assert!(cur <= 4096); } else { assert!(nfin == 0); }
        assert!(sum == u + n as u64);
        crate::vcover!(nfin == 2);
        crate::vcover!(nfin == 0);
        core::mem::forget(w);
    }
    #[kani::proof]
    #[kani::unwind(8)]
    //@ERR
    #[kani::stub(XZWriter::prepare_next_block, prepare_stub)]
    fn c18_xz_write_step2_e1_lim() { xz_write_step2(1, true); }
    #[kani::proof]
    #[kani::unwind(8)]
    //@ERR
    #[kani::stub(XZWriter::prepare_next_block, prepare_stub)]
    fn c18_xz_write_step2_e3_unl() { xz_write_step2(3, false); }

    // ---------------------------------------------------------------- option validation (C19)
    fn opts_with_filter(ft: FilterType, property: u32) -> XZOptions {
        let mut o = opts(CheckType::Crc32, 4096);
        o.filters.push(FilterConfig { filter_type: ft, property });
        o
    }
    /// C19.xz: XZWriter::new with one pre-filter whose property is *any* u32: accepted exactly when the block header can
    /// express it and the reader will accept it: delta distance in 1..=256, BCJ start offset aligned to the filter's
    /// instruction size, LZMA2 never as a pre-filter. (write_block_header's encoding of accepted values: c02_xz_bhdr_*.)
    fn xz_new_validates(ft: FilterType, valid: fn(u32) -> bool) {
        let p: u32 = vk::any();
        match XZWriter::new(vk::Sink::<4>::new(), opts_with_filter(ft, p)) {
            Ok(w) => { assert!(valid(p), "filter property accepted that the block header cannot carry / the reader rejects"); core::mem::forget(w); }
            Err(e) => { assert!(!valid(p)); assert!(vk::kind_of(&e) == vk::Kind::InvalidInput); }
        }
    }
    #[kani::proof]
    #[kani::unwind(4)]
    //@ERR
    fn c19_xz_new_delta() { xz_new_validates(FilterType::Delta, |p| p >= 1 && p <= 256); }
    #[kani::proof]
    #[kani::unwind(4)]
    //@ERR
    fn c19_xz_new_bcj_a1() { xz_new_validates(FilterType::BcjX86, |_p| true); }
    #[kani::proof]
    #[kani::unwind(4)]
    //@ERR
    fn c19_xz_new_bcj_a2() { xz_new_validates(FilterType::BcjARMThumb, |p| p % 2 == 0); xz_new_validates(FilterType::BcjRISCV, |p| p % 2 == 0); }
    #[kani::proof]
    #[kani::unwind(4)]
    //@ERR
    fn c19_xz_new_bcj_a4() {
        xz_new_validates(FilterType::BcjARM, |p| p % 4 == 0); xz_new_validates(FilterType::BcjPPC, |p| p % 4 == 0);
        xz_new_validates(FilterType::BcjSPARC, |p| p % 4 == 0); xz_new_validates(FilterType::BcjARM64, |p| p % 4 == 0);
    }
    #[kani::proof]
    #[kani::unwind(4)]
    //@ERR
    fn c19_xz_new_bcj_a16() { xz_new_validates(FilterType::BcjIA64, |p| p % 16 == 0); xz_new_validates(FilterType::LZMA2, |_p| false); }

    /// C02.xz.bhdr / C03.xz.layout: write_block_header for one accepted pre-filter + LZMA2: size byte, flags (2 filters),
    /// filter id, property size and bytes, 0x21 01 dict byte, zero padding to a multiple of 4, crc32 - equal to what the
    /// reader's BlockHeader::parse is specified to accept (xz-file-format 3.1).
    fn xz_block_header_bytes(ft: FilterType, id: u8, p: u32) {
        let mut w = XZWriter::new(vk::Sink::<32>::new(), opts_with_filter(ft, p)).unwrap();
        assert!(w.write_block_header().is_ok());
        let s = w.original_writer.borrow();
        let b = &s.buf;
        let mut exp = [0u8; 32];
        let mut n = 1;
        exp[n] = 1; n += 1;                       // block flags: 2 filters, no sizes
        exp[n] = id; n += 1;
        if id == 0x03 { exp[n] = 1; exp[n + 1] = (p - 1) as u8; n += 2; }
        else if p == 0 { exp[n] = 0; n += 1; }
        else { exp[n] = 4; let le = p.to_le_bytes(); exp[n + 1] = le[0]; exp[n + 2] = le[1]; exp[n + 3] = le[2]; exp[n + 4] = le[3]; n += 5; }
        exp[n] = 0x21; exp[n + 1] = 1; exp[n + 2] = 0; n += 3;     // LZMA2, dict 4096 -> byte 0
        let total = (n + 4 + 3) / 4 * 4;
        exp[0] = (total / 4 - 1) as u8;
        let crc = CRC32.checksum(&exp[..total - 4]).to_le_bytes();
        exp[total - 4] = crc[0]; exp[total - 3] = crc[1]; exp[total - 2] = crc[2]; exp[total - 1] = crc[3];
        assert!(s.len == total);
        let mut i = 0;
        while i < 20 { if i < total { assert!(b[i] == exp[i]); } i += 1; }
        drop(s);
        core::mem::forget(w);
    }
    #[kani::proof]
    #[kani::unwind(22)]
    //@ERR
    fn c02_xz_bhdr_delta() { xz_block_header_bytes(FilterType::Delta, 0x03, 256); }
    #[kani::proof]
    #[kani::unwind(22)]
    //@ERR
    fn c02_xz_bhdr_bcj_offset() { xz_block_header_bytes(FilterType::BcjARM, 0x07, 0x89AB_CDE0); }
    #[kani::proof]
    #[kani::unwind(22)]
    //@ERR
    fn c02_xz_bhdr_bcj_zero() { xz_block_header_bytes(FilterType::BcjX86, 0x04, 0); }

    /// C19.xz / C18.clamp: XZWriter::new: more than three pre-filters are refused; block size is raised to the dictionary
    /// size; LZMA2 is appended as the last filter.
    #[kani::proof]
    #[kani::unwind(8)]
    //@ERR
    fn c19_xz_new_filters_and_block_size() {
        let nf: usize = vk::any();
        vk::assume(nf <= 5);
        let bs: u64 = vk::any();
        let dict: u32 = vk::any();
        let mut o = opts(CheckType::None, dict);
        o.block_size = core::num::NonZeroU64::new(bs);
        let mut i = 0;
        while i < 5 { if i < nf { o.filters.push(FilterConfig { filter_type: FilterType::BcjX86, property: 0 }); } i += 1; }
        match XZWriter::new(vk::Sink::<4>::new(), o) {
            Err(e) => { assert!(nf > 3); assert!(vk::kind_of(&e) == vk::Kind::InvalidInput); }
            Ok(w) => {
                assert!(nf <= 3 && w.options.filters.len() == nf + 1);
                assert!(w.options.filters[nf].filter_type == FilterType::LZMA2);
                match w.options.block_size {
                    None => assert!(bs == 0),
                    Some(b) => assert!(b.get() == if bs < dict as u64 { dict as u64 } else { bs }),
                }
                assert!(!w.header_written && !w.finished && w.index_records.is_empty());
                core::mem::forget(w);
            }
        }
    }

    /// C19.xz / C02.xz.bhdr: LZMA2 dictionary size byte for every u32: refused below 4 KiB; otherwise the smallest
    /// representable size >= dict_size (so the reader's window covers the encoder's), 40 <=> 4 GiB - 1.
    #[kani::proof]
    #[kani::unwind(42)]
    //@ERR
    fn c19_xz_dict_size_byte() {
        let d: u32 = vk::any();
        let w = XZWriter::new(vk::Sink::<4>::new(), opts(CheckType::None, 4096)).unwrap();
        match w.encode_lzma2_dict_size(d) {
            Err(e) => { assert!(d < 4096 || d > 0xC000_0000); assert!(vk::kind_of(&e) == vk::Kind::InvalidInput); }
            Ok(prop) => {
                assert!(d >= 4096 && prop <= 40);
                let size = |p: u8| -> u64 { if p == 40 { 0xFFFF_FFFF } else { ((2 | (p & 1)) as u64) << (p / 2 + 11) } };
                assert!(size(prop) >= d as u64);
                if prop > 0 { assert!(size(prop - 1) < d as u64); }
            }
        }
        core::mem::forget(w);
    }

    // ---------------------------------------------------------------- XZWriter::write orchestration (modular)
    static mut HDR_CALLS: u32 = 0;
    static mut PREP_CALLS: u32 = 0;
    static mut FIN_SIZES: [u64; 4] = [0; 4];
    static mut FIN_N: usize = 0;
    fn hdr_stub<'w, W: Write + 'w>(s: &mut XZWriter<'w, W>) -> Result<()> { unsafe { HDR_CALLS += 1; } s.header_written = true; Ok(()) }
    /// prepare_next_block by contract (body: C03.xz.unpadded): a block is opened, its byte count starts at 0
    fn prep_count_stub<'w, W: Write + 'w>(s: &mut XZWriter<'w, W>) -> Result<()> {
        unsafe { PREP_CALLS += 1; assert!(FIN_N as u32 + 1 == PREP_CALLS); }       // never two open blocks
        s.writer = Box::new(PayloadW { out: SharedWriter { inner: Rc::clone(&s.original_writer), compressed_bytes_written: Rc::clone(&s.compressed_bytes_written) } });
        s.block_uncompressed_size = 0;
        Ok(())
    }
    /// finish_current_block by contract (body: C02.xz.finish / C02.xz.index): the open block is closed with an index
    /// record for its byte count; the count is reset
    fn fin_count_stub<'w, W: Write + 'w>(s: &mut XZWriter<'w, W>) -> Result<()> {
        unsafe { assert!(FIN_N < 4 && PREP_CALLS as usize == FIN_N + 1); FIN_SIZES[FIN_N] = s.block_uncompressed_size; FIN_N += 1; }
        s.block_uncompressed_size = 0;
        Ok(())
    }

    /// C18.xz / C02.xz.acct (D11): the block-splitting logic of XZWriter::write for one call of any length n <= 9000 from
    /// a fresh writer with block_size 4096 (= dictionary size): the stream header is ensured first, blocks are opened and
    /// closed alternately, every closed block holds 1..=4096 bytes, the blocks partition the n bytes in order, the
    /// open block holds the rest (<= 4096), the whole buffer is consumed and counted once.
    #[kani::proof]
    #[kani::unwind(6)]
    //@ERR
    #[kani::stub(XZWriter::write_stream_header, hdr_stub)]
    #[kani::stub(XZWriter::prepare_next_block, prep_count_stub)]
    #[kani::stub(XZWriter::finish_current_block, fin_count_stub)]
    fn c18_xz_write_splits_blocks() {
        unsafe { HDR_CALLS = 0; PREP_CALLS = 0; FIN_N = 0; crate::vk::pl_reset(1); }
        let mut o = opts(CheckType::None, 4096);
        o.block_size = core::num::NonZeroU64::new(4096);
        let mut w = XZWriter::new(vk::Sink::<8>::new(), o).unwrap();
        static DATA: [u8; 9000] = [0u8; 9000];
        let n: usize = vk::any();
        vk::assume(n >= 1 && n <= 9000);
        let r = w.write(&DATA[..n]);
        assert!(matches!(r, Ok(k) if k == n));
        assert!(unsafe { HDR_CALLS } >= 1);
        assert!(w.total_uncompressed_pos == n as u64);
        let closed = unsafe { FIN_N };
        assert!(unsafe { PREP_CALLS } as usize == closed + 1);
        let mut sum = w.block_uncompressed_size;
        assert!(sum >= 1 && sum <= 4096, "open block exceeds the configured block size");
        let mut i = 0;
        while i < 4 {
            if i < closed {
                let b = unsafe { FIN_SIZES[i] };
                assert!(b >= 1 && b <= 4096, "closed block exceeds the configured block size");
                sum += b;
            }
            i += 1;
        }
        assert!(sum == n as u64);
        assert!(unsafe { crate::vk::PL_CUR_IN } == n as u64);       // the payload chain(s) received every byte exactly once
        crate::vcover!(closed == 2);
        core::mem::forget(w);
    }

    /// C03.xz.unpadded / C02.xz.index / C02.xz.acct: finish_current_block from any bookkeeping state: the block's filter
    /// chain is finished (here: emits PL_EMIT bytes), the compressed data is padded with zeros to a multiple of four,
    /// the Check field follows, and ONE index record is appended with unpadded size = bytes from the block start
    /// (header included) to the end of the compressed data + check size, and uncompressed size = the bytes of THIS
    /// block (not of the stream); the per-block counter restarts.
    fn xz_finish_block(check: CheckType, emit: usize) {
        crate::vk::pl_reset(emit);
        let mut w = XZWriter::new(vk::Sink::<64>::new(), opts(check, 4096)).unwrap();
        let start: u64 = vk::any();
        let hdr: u64 = 12;
        let u: u64 = vk::any();
        let t: u64 = vk::any();
        vk::assume(start % 4 == 0 && start < 1 << 40 && u >= 1 && u < 1 << 40 && t >= u && t < 1 << 41);
        w.header_written = true;
        w.current_block_start_pos = start;
        w.compressed_bytes_written.set(start + hdr);
        w.block_uncompressed_size = u;
        w.total_uncompressed_pos = t;
        w.writer = Box::new(PayloadW { out: SharedWriter { inner: Rc::clone(&w.original_writer), compressed_bytes_written: Rc::clone(&w.compressed_bytes_written) } });
        let recs0 = w.index_records.len();
        assert!(w.finish_current_block().is_ok());
        let clen: u64 = match check { CheckType::None => 0, CheckType::Crc32 => 4, CheckType::Crc64 => 8, CheckType::Sha256 => 32 };
        let pad = (4 - emit % 4) % 4;
        assert!(w.index_records.len() == recs0 + 1);
        let r = &w.index_records[recs0];
        assert!(r.unpadded_size == hdr + emit as u64 + clen, "index Unpadded Size is not header + compressed data + check");
        assert!(r.uncompressed_size == u, "index Uncompressed Size is not the number of bytes in this block");
        assert!(w.block_uncompressed_size == 0 && w.total_uncompressed_pos == t);
        assert!(w.compressed_bytes_written.get() == start + hdr + (emit + pad) as u64 + clen);
        {
            let s = w.original_writer.borrow();
            assert!(s.len == emit + pad + clen as usize);
            let mut i = 0;
            while i < 8 { if i < emit { assert!(s.buf[i] == 0xAA); } else if i < emit + pad { assert!(s.buf[i] == 0); } i += 1; }
        }
        core::mem::forget(w);
    }
    #[kani::proof]
    #[kani::unwind(10)]
    //@ERR
    fn c03_xz_finish_block_crc32_e1() { xz_finish_block(CheckType::Crc32, 1); }
    #[kani::proof]
    #[kani::unwind(10)]
    //@ERR
    fn c03_xz_finish_block_none_e4() { xz_finish_block(CheckType::None, 4); }
    #[kani::proof]
    #[kani::unwind(10)]
    //@ERR
    fn c03_xz_finish_block_crc64_e2() { xz_finish_block(CheckType::Crc64, 2); }

    // ---------------------------------------------------------------- C03.xz.backward: footer Backward Size with a 2-byte record count
    /// Stream footer for an index of N >= 128 records (the Number of Records field then takes 2 bytes):
    /// Backward Size = (real index size)/4 - 1 per xz-file-format 2.1.2.1, where the real index size is
    /// 1 (indicator) + len(mbi(N)) + sum of record field lengths, padded to 4, + 4 (CRC32). liblzma locates the index
    /// from this field; our own reader does not use it, so only the format oracle can see a miscount.
    fn xz_footer_backward(n: usize, _u: u64, _v: u64, ku: usize, kv: usize) {
        let mut w = core::mem::ManuallyDrop::new(XZWriter::new(vk::Sink::<16>::new(), opts(CheckType::Crc32, 1 << 16)).unwrap());
        // n records with both sizes 0 (1-byte fields): one zeroed allocation instead of n pushes
        unsafe {
            let layout = core::alloc::Layout::array::<IndexRecord>(n).unwrap();
            let ptr = alloc::alloc::alloc_zeroed(layout) as *mut IndexRecord;
            core::ptr::write(&mut w.index_records, Vec::from_raw_parts(ptr, n, n));
        }
        assert!(w.write_stream_footer().is_ok());
        let cell = w.original_writer.clone();
        let sink = cell.borrow();
        assert!(sink.len == 12);
        let nlen = if n < 128 { 1 } else { 2 };
        let index_len = (1 + nlen + n * (ku + kv) + 3) / 4 * 4 + 4;
        let backward = u32::from_le_bytes([sink.buf[4], sink.buf[5], sink.buf[6], sink.buf[7]]);
        assert!(backward as usize == index_len / 4 - 1, "footer Backward Size does not lead back to the index indicator");
    }
    #[kani::proof]
    #[kani::unwind(132)]
    //@ERR
    fn c03_xz_footer_backward_n129() { xz_footer_backward(129, 0, 0, 1, 1); }
    #[kani::proof]
    #[kani::unwind(136)]
    //@ERR
    fn c03_xz_footer_backward_n130() { xz_footer_backward(133, 0, 0, 1, 1); }
    #[kani::proof]
    #[kani::unwind(132)]
    //@ERR
    fn c03_xz_footer_backward_n127() { xz_footer_backward(127, 0, 0, 1, 1); }
