    // ===== src/xz/writer.rs : stream header / footer / block header / index framing =====
    use crate::xz::reader::verif_kani::{rd_block_header, rd_stream_footer, rd_stream_header, rd_index};

    fn check_of(i: u8) -> CheckType {
        match i { 0 => CheckType::None, 1 => CheckType::Crc32, 2 => CheckType::Crc64, _ => CheckType::Sha256 }
    }

    fn opts(check: CheckType, dict: u32) -> XZOptions {
        XZOptions {
            lzma_options: LZMAOptions { dict_size: dict, lc: 3, lp: 0, pb: 2, mode: crate::EncodeMode::Fast,
                nice_len: 32, mf: crate::MFType::HC4, depth_limit: 4, preset_dict: None },
            check_type: check, block_size: None, filters: Vec::new(),
        }
    }

    /// C02.xz.shdr / C03.xz.layout: the 12 stream header bytes equal the xz spec layout and parse back to the
    /// same check type, for each of the four check types.
    fn xz_stream_header(check: CheckType) {
        let mut w = XZWriter::new(vk::Sink::<16>::new(), opts(check, 1 << 16)).unwrap();
        assert!(w.write_stream_header().is_ok());
        assert!(w.header_written);
        // idempotent
        assert!(w.write_stream_header().is_ok());
        assert!(w.compressed_bytes_written.get() == 12);
        let sink = w.into_inner();
        assert!(sink.len == 12);
        let b = sink.buf;
        assert!(b[0] == 0xFD && b[1] == b'7' && b[2] == b'z' && b[3] == b'X' && b[4] == b'Z' && b[5] == 0);
        assert!(b[6] == 0 && b[7] == check as u8);
        let crc = CRC32.checksum(&[b[6], b[7]]);
        assert!(b[8..12] == crc.to_le_bytes());
        let parsed = rd_stream_header(&sink.buf[..12]);
        assert!(matches!(parsed, Ok(c) if c == check));
    }
    #[kani::proof]
    #[kani::unwind(14)]
    #[kani::stub(crate::error_invalid_data, crate::vk::err_invalid_data)]
    #[kani::stub(crate::error_eof, crate::vk::err_eof)]
    fn c02_xz_stream_header_none() { xz_stream_header(check_of(0)); }
    #[kani::proof]
    #[kani::unwind(14)]
    #[kani::stub(crate::error_invalid_data, crate::vk::err_invalid_data)]
    #[kani::stub(crate::error_eof, crate::vk::err_eof)]
    fn c02_xz_stream_header_crc32() { xz_stream_header(check_of(1)); }
    #[kani::proof]
    #[kani::unwind(14)]
    #[kani::stub(crate::error_invalid_data, crate::vk::err_invalid_data)]
    #[kani::stub(crate::error_eof, crate::vk::err_eof)]
    fn c02_xz_stream_header_crc64() { xz_stream_header(check_of(2)); }
    #[kani::proof]
    #[kani::unwind(66)]
    #[kani::stub(crate::error_invalid_data, crate::vk::err_invalid_data)]
    #[kani::stub(crate::error_eof, crate::vk::err_eof)]
    fn c02_xz_stream_header_sha256() { xz_stream_header(check_of(3)); }

    /// C02.xz.index / C03.xz.layout: write_index ↔ Index::parse and write_stream_footer ↔ StreamFooter::parse for
    /// n records with arbitrary sizes of the given encoded-length classes: same record count and sizes come back,
    /// the reader consumes exactly the bytes written, padding to a multiple of 4, backward size = index size/4 - 1,
    /// footer flags = header flags.  `encode_multibyte_integer` is replaced by its class-k contract (proved against
    /// the real function in C02.mbi) so that CBMC sees concrete lengths.
    fn xz_index_footer(n: usize, check: CheckType, ku: usize, kv: usize) {
        use crate::xz::verif_kani::{mbi_in_class, mbi_schedule};
        let mut w = XZWriter::new(vk::Sink::<64>::new(), opts(check, 1 << 16)).unwrap();
        let mut recs: [(u64, u64); 2] = [(0, 0); 2];
        let mut i = 0;
        while i < n {
            let u: u64 = vk::any();
            let v: u64 = vk::any();
            vk::assume(u >= 1 && mbi_in_class(u, ku) && mbi_in_class(v, kv));
            recs[i] = (u, v);
            w.index_records.push(IndexRecord { unpadded_size: u, uncompressed_size: v });
            i += 1;
        }
        if n == 0 { mbi_schedule(&[1]); } else if n == 1 { mbi_schedule(&[1, ku, kv]); } else { mbi_schedule(&[1, ku, kv, ku, kv]); }
        assert!(w.write_index().is_ok());
        let index_len = w.compressed_bytes_written.get() as usize;
        assert!(index_len % 4 == 0 && index_len >= 8);
        assert!(index_len == (1 + 1 + n * (ku + kv) + 3) / 4 * 4 + 4);
        assert!(w.write_stream_footer().is_ok());
        let total = w.compressed_bytes_written.get() as usize;
        assert!(total == index_len + 12);
        let sink = w.into_inner();
        assert!(sink.len == total);
        assert!(sink.buf[0] == 0);          // index indicator
        // writer output = spec bytes (the reader half is proved against the same spec in c02_xz_index_parse_*)
        let mut spec = [0u8; 64];
        let slen = crate::xz::reader::verif_kani::spec_index(&mut spec, n, &recs, ku, kv);
        assert!(slen == index_len);
        let mut j = 0;
        while j < 44 { if j < index_len { assert!(sink.buf[j] == spec[j]); } j += 1; }
        // footer = spec footer: crc32(backward,flags) | backward | flags | "YZ"
        let backward = (index_len / 4 - 1) as u32;
        let bb = backward.to_le_bytes();
        let flags = [0u8, check as u8];
        let crc = CRC32.checksum(&[bb[0], bb[1], bb[2], bb[3], flags[0], flags[1]]).to_le_bytes();
        let f = &sink.buf[index_len..total];
        assert!(f[0..4] == crc && f[4..8] == bb && f[8..10] == flags);
        assert!(sink.buf[total - 2] == b'Y' && sink.buf[total - 1] == b'Z');
    }
    #[kani::proof]
    #[kani::unwind(66)]
    #[kani::stub(crate::error_invalid_data, crate::vk::err_invalid_data)]
    #[kani::stub(crate::error_eof, crate::vk::err_eof)]
    #[kani::stub(crate::xz::encode_multibyte_integer, crate::xz::verif_kani::encode_mbi_class_stub)]
    fn c02_xz_index_footer_n0_1_1() { xz_index_footer(0, CheckType::Crc32, 1, 1); }
    #[kani::proof]
    #[kani::unwind(66)]
    #[kani::stub(crate::error_invalid_data, crate::vk::err_invalid_data)]
    #[kani::stub(crate::error_eof, crate::vk::err_eof)]
    #[kani::stub(crate::xz::encode_multibyte_integer, crate::xz::verif_kani::encode_mbi_class_stub)]
    fn c02_xz_index_footer_n1_1_1() { xz_index_footer(1, CheckType::Crc64, 1, 1); }
    #[kani::proof]
    #[kani::unwind(66)]
    #[kani::stub(crate::error_invalid_data, crate::vk::err_invalid_data)]
    #[kani::stub(crate::error_eof, crate::vk::err_eof)]
    #[kani::stub(crate::xz::encode_multibyte_integer, crate::xz::verif_kani::encode_mbi_class_stub)]
    fn c02_xz_index_footer_n1_2_1() { xz_index_footer(1, CheckType::None, 2, 1); }
    #[kani::proof]
    #[kani::unwind(66)]
    #[kani::stub(crate::error_invalid_data, crate::vk::err_invalid_data)]
    #[kani::stub(crate::error_eof, crate::vk::err_eof)]
    #[kani::stub(crate::xz::encode_multibyte_integer, crate::xz::verif_kani::encode_mbi_class_stub)]
    fn c02_xz_index_footer_n1_3_3() { xz_index_footer(1, CheckType::Crc32, 3, 3); }
    #[kani::proof]
    #[kani::unwind(66)]
    #[kani::stub(crate::error_invalid_data, crate::vk::err_invalid_data)]
    #[kani::stub(crate::error_eof, crate::vk::err_eof)]
    #[kani::stub(crate::xz::encode_multibyte_integer, crate::xz::verif_kani::encode_mbi_class_stub)]
    fn c02_xz_index_footer_n1_9_9() { xz_index_footer(1, CheckType::Sha256, 9, 9); }
    #[kani::proof]
    #[kani::unwind(66)]
    #[kani::stub(crate::error_invalid_data, crate::vk::err_invalid_data)]
    #[kani::stub(crate::error_eof, crate::vk::err_eof)]
    #[kani::stub(crate::xz::encode_multibyte_integer, crate::xz::verif_kani::encode_mbi_class_stub)]
    fn c02_xz_index_footer_n1_5_4() { xz_index_footer(1, CheckType::Crc32, 5, 4); }
    #[kani::proof]
    #[kani::unwind(66)]
    #[kani::stub(crate::error_invalid_data, crate::vk::err_invalid_data)]
    #[kani::stub(crate::error_eof, crate::vk::err_eof)]
    #[kani::stub(crate::xz::encode_multibyte_integer, crate::xz::verif_kani::encode_mbi_class_stub)]
    fn c02_xz_index_footer_n2_2_3() { xz_index_footer(2, CheckType::Crc32, 2, 3); }

