    // ===== src/xz/reader.rs : parsers =====

    // thin accessors so that writer-side harnesses (module xz::writer::verif_kani) can call the private parsers
    pub(crate) fn rd_stream_header(b: &[u8]) -> Result<CheckType> {
        let mut r = b;
        StreamHeader::parse(&mut r).map(|h| h.check_type)
    }
    pub(crate) fn rd_stream_footer(b: &[u8]) -> Result<(u32, [u8; 2])> {
        let mut r = b;
        StreamFooter::parse(&mut r).map(|f| (f.backward_size, f.stream_flags))
    }
    pub(crate) fn rd_block_header(b: &[u8]) -> Result<Option<([Option<FilterType>; 4], [u32; 4], usize)>> {
        let mut r = b;
        let res = BlockHeader::parse(&mut r)?;
        Ok(res.map(|h| (h.filters, h.properties, b.len() - r.len())))
    }
    pub(crate) fn rd_index(b: &[u8]) -> Result<(u64, usize)> {
        let mut r = b;
        let idx = Index::parse(&mut r)?;
        Ok((idx.number_of_records, b.len() - r.len()))
    }
    pub(crate) fn rd_index_records(b: &[u8]) -> Result<(u64, usize, (u64, u64), (u64, u64))> {
        let mut r = b;
        let idx = Index::parse(&mut r)?;
        let g = |i: usize| if i < idx.records.len() { (idx.records[i].unpadded_size, idx.records[i].uncompressed_size) } else { (0, 0) };
        Ok((idx.number_of_records, b.len() - r.len(), g(0), g(1)))
    }

    /// spec: canonical k-byte encoding of v (xz-file-format 1.1.0 section 1.2) written at out[off..off+k]
    pub(crate) fn spec_mbi_put(out: &mut [u8], off: usize, v: u64, k: usize) -> usize {
        let mut x = v;
        let mut i = 0;
        while i + 1 < k { out[off + i] = (x as u8) | 0x80; x >>= 7; i += 1; }
        out[off + k - 1] = x as u8;
        off + k
    }

    /// spec: Index field (section 4) for up to 2 records with encoded-length classes (ku,kv); returns total length
    pub(crate) fn spec_index(out: &mut [u8; 64], n: usize, recs: &[(u64, u64); 2], ku: usize, kv: usize) -> usize {
        out[0] = 0;
        let mut off = spec_mbi_put(out, 1, n as u64, 1);
        let mut i = 0;
        while i < n {
            off = spec_mbi_put(out, off, recs[i].0, ku);
            off = spec_mbi_put(out, off, recs[i].1, kv);
            i += 1;
        }
        while off % 4 != 0 { out[off] = 0; off += 1; }
        let crc = CRC32.checksum(&out[..off]);
        let b = crc.to_le_bytes();
        out[off] = b[0]; out[off + 1] = b[1]; out[off + 2] = b[2]; out[off + 3] = b[3];
        off + 4
    }

    /// C02.xz.index (reader half) / C04: Index::parse accepts the spec index and returns its records, consuming exactly it.
    fn xz_index_parse(n: usize, ku: usize, kv: usize) {
        use crate::xz::verif_kani::mbi_in_class;
        let mut recs: [(u64, u64); 2] = [(0, 0); 2];
        let mut i = 0;
        while i < n {
            let u: u64 = vk::any();
            let v: u64 = vk::any();
            vk::assume(u >= 1 && mbi_in_class(u, ku) && mbi_in_class(v, kv));
            recs[i] = (u, v);
            i += 1;
        }
        let mut buf = [0u8; 64];
        let len = spec_index(&mut buf, n, &recs, ku, kv);
        let mut r = &buf[1..];
        let res = Index::parse(&mut r);
        match res {
            Ok(idx) => {
                assert!(idx.number_of_records == n as u64);
                assert!(idx.records.len() == n);
                assert!(63 - r.len() == len - 1);
                let mut i = 0;
                while i < n {
                    assert!(idx.records[i].unpadded_size == recs[i].0);
                    assert!(idx.records[i].uncompressed_size == recs[i].1);
                    i += 1;
                }
            }
            Err(_) => assert!(false),
        }
    }
    #[kani::proof]
    #[kani::unwind(30)]
    #[kani::stub(crate::error_invalid_data, crate::vk::err_invalid_data)]
    #[kani::stub(crate::error_eof, crate::vk::err_eof)]
    fn c02_xz_index_parse_n0_1_1() { xz_index_parse(0, 1, 1); }
    #[kani::proof]
    #[kani::unwind(30)]
    #[kani::stub(crate::error_invalid_data, crate::vk::err_invalid_data)]
    #[kani::stub(crate::error_eof, crate::vk::err_eof)]
    fn c02_xz_index_parse_n1_1_1() { xz_index_parse(1, 1, 1); }
    #[kani::proof]
    #[kani::unwind(30)]
    #[kani::stub(crate::error_invalid_data, crate::vk::err_invalid_data)]
    #[kani::stub(crate::error_eof, crate::vk::err_eof)]
    fn c02_xz_index_parse_n1_2_3() { xz_index_parse(1, 2, 3); }
    #[kani::proof]
    #[kani::unwind(30)]
    #[kani::stub(crate::error_invalid_data, crate::vk::err_invalid_data)]
    #[kani::stub(crate::error_eof, crate::vk::err_eof)]
    fn c02_xz_index_parse_n1_9_9() { xz_index_parse(1, 9, 9); }
    #[kani::proof]
    #[kani::unwind(30)]
    #[kani::stub(crate::error_invalid_data, crate::vk::err_invalid_data)]
    #[kani::stub(crate::error_eof, crate::vk::err_eof)]
    fn c02_xz_index_parse_n1_5_4() { xz_index_parse(1, 5, 4); }
    #[kani::proof]
    #[kani::unwind(30)]
    #[kani::stub(crate::error_invalid_data, crate::vk::err_invalid_data)]
    #[kani::stub(crate::error_eof, crate::vk::err_eof)]
    fn c02_xz_index_parse_n2_2_3() { xz_index_parse(2, 2, 3); }

    /// C02.xz.sftr / C04.xz.hdrs: StreamFooter::parse on arbitrary 12 bytes: Ok ⇔ crc field = crc32(bytes 4..10) ∧ magic "YZ";
    /// returns exactly the stored backward size and flags.
    #[kani::proof]
    #[kani::unwind(14)]
    #[kani::stub(crate::error_invalid_data, crate::vk::err_invalid_data)]
    #[kani::stub(crate::error_eof, crate::vk::err_eof)]
    fn c04_xz_footer_parse_any() {
        let b: [u8; 12] = vk::any();
        let mut r = &b[..];
        let res = StreamFooter::parse(&mut r);
        let crc_ok = u32::from_le_bytes([b[0], b[1], b[2], b[3]]) == CRC32.checksum(&b[4..10]);
        let magic_ok = b[10] == b'Y' && b[11] == b'Z';
        match res {
            Ok(f) => {
                assert!(crc_ok && magic_ok);
                assert!(f.backward_size == u32::from_le_bytes([b[4], b[5], b[6], b[7]]));
                assert!(f.stream_flags == [b[8], b[9]]);
                assert!(r.len() == 0);
            }
            Err(e) => {
                assert!(!(crc_ok && magic_ok));
                assert!(e.kind() == std::io::ErrorKind::InvalidData);
            }
        }
        crate::vcover!(crc_ok && magic_ok);
    }

    /// C04.xz.hdrs / C06: StreamHeader::parse on arbitrary 12 bytes: Ok ⇔ magic ∧ flags[0]=0 ∧ supported check id ∧ crc matches.
    #[kani::proof]
    #[kani::unwind(14)]
    #[kani::stub(crate::error_invalid_data, crate::vk::err_invalid_data)]
    #[kani::stub(crate::error_eof, crate::vk::err_eof)]
    fn c04_xz_header_parse_any() {
        let b: [u8; 12] = vk::any();
        let mut r = &b[..];
        let res = StreamHeader::parse(&mut r);
        let magic_ok = b[0] == 0xFD && b[1] == b'7' && b[2] == b'z' && b[3] == b'X' && b[4] == b'Z' && b[5] == 0;
        let flags_ok = b[6] == 0 && (b[7] == 0 || b[7] == 1 || b[7] == 4 || b[7] == 10);
        let crc_ok = u32::from_le_bytes([b[8], b[9], b[10], b[11]]) == CRC32.checksum(&b[6..8]);
        match res {
            Ok(h) => {
                assert!(magic_ok && flags_ok && crc_ok);
                assert!(h.check_type as u8 == b[7]);
                assert!(r.len() == 0);
            }
            Err(e) => {
                assert!(!(magic_ok && flags_ok && crc_ok));
                assert!(e.kind() == std::io::ErrorKind::InvalidData);
            }
        }
        crate::vcover!(magic_ok && flags_ok && crc_ok);
    }
