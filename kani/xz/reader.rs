    // ===== src/xz/reader.rs : parsers =====
    use sha2::Digest;

    // thin accessors so that writer-side harnesses (module xz::writer::verif_kani) can call the private parsers
    pub(crate) fn rd_stream_header(b: &[u8]) -> Result<CheckType> {
        let mut r = b;
        StreamHeader::parse(&mut r).map(|h| h.check_type)
    }
    pub(crate) fn rd_stream_footer(b: &[u8]) -> Result<(u32, [u8; 2])> {
        let mut r = b;
        StreamFooter::parse(&mut r).map(|f| (f.backward_size, f.stream_flags))
    }
    pub(crate) fn rd_block_header(b: &[u8]) -> Result<Option<([Option<FilterType>; 4], [u32; 4], usize)>> {
        let mut r = b;
        let res = BlockHeader::parse(&mut r)?;
        Ok(res.map(|h| (h.filters, h.properties, b.len() - r.len())))
    }
    pub(crate) fn rd_index(b: &[u8]) -> Result<(u64, usize)> {
        let mut r = b;
        let idx = Index::parse(&mut r)?;
        Ok((idx.number_of_records, b.len() - r.len()))
    }
    pub(crate) fn rd_index_records(b: &[u8]) -> Result<(u64, usize, (u64, u64), (u64, u64))> {
        let mut r = b;
        let idx = Index::parse(&mut r)?;
        let g = |i: usize| if i < idx.records.len() { (idx.records[i].unpadded_size, idx.records[i].uncompressed_size) } else { (0, 0) };
        Ok((idx.number_of_records, b.len() - r.len(), g(0), g(1)))
    }

    /// spec: canonical k-byte encoding of v (xz-file-format 1.1.0 section 1.2) written at out[off..off+k]
    pub(crate) fn spec_mbi_put(out: &mut [u8], off: usize, v: u64, k: usize) -> usize {
        let mut x = v;
        let mut i = 0;
        while i + 1 < k { out[off + i] = (x as u8) | 0x80; x >>= 7; i += 1; }
        out[off + k - 1] = x as u8;
        off + k
    }

    /// spec: Index field (section 4) for up to 2 records with encoded-length classes (ku,kv); returns total length
    pub(crate) fn spec_index(out: &mut [u8; 64], n: usize, recs: &[(u64, u64); 2], ku: usize, kv: usize) -> usize {
        out[0] = 0;
        let mut off = spec_mbi_put(out, 1, n as u64, 1);
        let mut i = 0;
        while i < n {
            off = spec_mbi_put(out, off, recs[i].0, ku);
            off = spec_mbi_put(out, off, recs[i].1, kv);
            i += 1;
        }
        while off % 4 != 0 { out[off] = 0; off += 1; }
        let crc = CRC32.checksum(&out[..off]);
        let b = crc.to_le_bytes();
        out[off] = b[0]; out[off + 1] = b[1]; out[off + 2] = b[2]; out[off + 3] = b[3];
        off + 4
    }

    /// C02.xz.index (reader half) / C04: Index::parse accepts the spec index and returns its records, consuming exactly it.
    fn xz_index_parse(n: usize, ku: usize, kv: usize) {
        use crate::xz::verif_kani::mbi_in_class;
        let mut recs: [(u64, u64); 2] = [(0, 0); 2];
        let mut i = 0;
        while i < n {
            let u: u64 = vk::any();
            let v: u64 = vk::any();
            vk::assume(u >= 1 && mbi_in_class(u, ku) && mbi_in_class(v, kv));
            recs[i] = (u, v);
            i += 1;
        }
        let mut buf = [0u8; 64];
        let len = spec_index(&mut buf, n, &recs, ku, kv);
        let mut r = &buf[1..];
        let res = Index::parse(&mut r);
        match res {
            Ok(idx) => {
                assert!(idx.number_of_records == n as u64);
                assert!(idx.records.len() == n);
                assert!(63 - r.len() == len - 1);
                let mut i = 0;
                while i < n {
                    assert!(idx.records[i].unpadded_size == recs[i].0);
                    assert!(idx.records[i].uncompressed_size == recs[i].1);
                    i += 1;
                }
            }
            Err(_) => assert!(false),
        }
    }
    #[kani::proof]
    #[kani::unwind(30)]
    #[kani::stub(crate::error_invalid_data, crate::vk::err_invalid_data)]
    #[kani::stub(crate::error_eof, crate::vk::err_eof)]
    fn c02_xz_index_parse_n0_1_1() { xz_index_parse(0, 1, 1); }
    #[kani::proof]
    #[kani::unwind(30)]
    #[kani::stub(crate::error_invalid_data, crate::vk::err_invalid_data)]
    #[kani::stub(crate::error_eof, crate::vk::err_eof)]
    fn c02_xz_index_parse_n1_1_1() { xz_index_parse(1, 1, 1); }
    #[kani::proof]
    #[kani::unwind(30)]
    #[kani::stub(crate::error_invalid_data, crate::vk::err_invalid_data)]
    #[kani::stub(crate::error_eof, crate::vk::err_eof)]
    fn c02_xz_index_parse_n1_2_3() { xz_index_parse(1, 2, 3); }
    #[kani::proof]
    #[kani::unwind(30)]
    #[kani::stub(crate::error_invalid_data, crate::vk::err_invalid_data)]
    #[kani::stub(crate::error_eof, crate::vk::err_eof)]
    fn c02_xz_index_parse_n1_9_9() { xz_index_parse(1, 9, 9); }
    #[kani::proof]
    #[kani::unwind(30)]
    #[kani::stub(crate::error_invalid_data, crate::vk::err_invalid_data)]
    #[kani::stub(crate::error_eof, crate::vk::err_eof)]
    fn c02_xz_index_parse_n1_5_4() { xz_index_parse(1, 5, 4); }
    #[kani::proof]
    #[kani::unwind(30)]
    #[kani::stub(crate::error_invalid_data, crate::vk::err_invalid_data)]
    #[kani::stub(crate::error_eof, crate::vk::err_eof)]
    fn c02_xz_index_parse_n2_2_3() { xz_index_parse(2, 2, 3); }

    /// C04.xz.index.count: contract of `XZReader::parse_index_and_footer` - it returns Ok only if the index lists exactly
    /// as many records as blocks were decoded (an inserted, duplicated or dropped self-consistent block is detected only
    /// here) and the footer repeats the header's stream flags behind the magic "YZ". Input: the spec index with n records
    /// followed by 12 arbitrary footer bytes; the block counter and the header's check type are arbitrary.
    fn xz_index_footer_count(n: usize) {
        let mut recs: [(u64, u64); 2] = [(0, 0); 2];
        let mut i = 0;
        while i < n {
            let u: u8 = vk::any();
            let v: u8 = vk::any();
            vk::assume(u >= 1 && u < 0x80 && v < 0x80);
            recs[i] = (u as u64, v as u64);
            i += 1;
        }
        let mut ibuf = [0u8; 64];
        let ilen = spec_index(&mut ibuf, n, &recs, 1, 1);
        let footer: [u8; 12] = vk::any();
        let mut buf = [0u8; 28];
        let mut i = 1;
        while i < ilen { buf[i - 1] = ibuf[i]; i += 1; }
        let mut j = 0;
        while j < 12 { buf[ilen - 1 + j] = footer[j]; j += 1; }
        let c: u8 = vk::any();
        vk::assume(c == 0 || c == 1 || c == 4 || c == 10);
        let ct = match c { 0 => CheckType::None, 1 => CheckType::Crc32, 4 => CheckType::Crc64, _ => CheckType::Sha256 };
        let b: u64 = vk::any();
        let mut r = XZReader::new(vk::Src::<28>::new(buf, ilen - 1 + 12), false);
        r.stream_header = Some(StreamHeader { check_type: ct });
        r.blocks_processed = b;
        let res = r.parse_index_and_footer();
        let footer_ok = u32::from_le_bytes([footer[0], footer[1], footer[2], footer[3]]) == CRC32.checksum(&footer[4..10])
            && footer[8] == 0 && footer[9] == c && footer[10] == b'Y' && footer[11] == b'Z';
        match res {
            Ok(()) => {
                assert!(b == n as u64);
                assert!(footer_ok);
            }
            Err(e) => {
                assert!(!(b == n as u64 && footer_ok));
                assert!(vk::kind_of(&e) == vk::Kind::InvalidData);
            }
        }
        crate::vcover!(b == n as u64 && footer_ok);
        core::mem::forget(r);
    }
    /// diagnostic variant (parked): empty index, concrete check type, only the Ok arm continues
    #[kani::proof]
    #[kani::unwind(30)]
    //@ERR
    fn c04_xz_index_footer_count_ok_n0_crc32() {
        let recs: [(u64, u64); 2] = [(0, 0); 2];
        let mut ibuf = [0u8; 64];
        let ilen = spec_index(&mut ibuf, 0, &recs, 1, 1);
        let footer: [u8; 12] = vk::any();
        let mut buf = [0u8; 28];
        let mut i = 1;
        while i < ilen { buf[i - 1] = ibuf[i]; i += 1; }
        let mut j = 0;
        while j < 12 { buf[ilen - 1 + j] = footer[j]; j += 1; }
        let b: u64 = vk::any();
        let mut r = XZReader::new(vk::Src::<28>::new(buf, ilen - 1 + 12), false);
        r.stream_header = Some(StreamHeader { check_type: CheckType::Crc32 });
        r.blocks_processed = b;
        let res = r.parse_index_and_footer();
        vk::assume(res.is_ok());
        assert!(b == 0);
        assert!(footer[8] == 0 && footer[9] == 1 && footer[10] == b'Y' && footer[11] == b'Z');
        crate::vcover!(true);
        core::mem::forget(res);
        core::mem::forget(r);
    }
    #[kani::proof]
    #[kani::unwind(30)]
    //@ERR
    fn c04_xz_index_footer_count_n0() { xz_index_footer_count(0); }
    #[kani::proof]
    #[kani::unwind(30)]
    //@ERR
    fn c04_xz_index_footer_count_n1() { xz_index_footer_count(1); }
    #[kani::proof]
    #[kani::unwind(30)]
    //@ERR
    fn c04_xz_index_footer_count_n2() { xz_index_footer_count(2); }

    /// C02.xz.sftr / C04.xz.hdrs: StreamFooter::parse on arbitrary 12 bytes: Ok ⇔ crc field = crc32(bytes 4..10) ∧ magic "YZ";
    /// returns exactly the stored backward size and flags.
    #[kani::proof]
    #[kani::unwind(14)]
    #[kani::stub(crate::error_invalid_data, crate::vk::err_invalid_data)]
    #[kani::stub(crate::error_eof, crate::vk::err_eof)]
    fn c04_xz_footer_parse_any() {
        let b: [u8; 12] = vk::any();
        let mut r = &b[..];
        let res = StreamFooter::parse(&mut r);
        let crc_ok = u32::from_le_bytes([b[0], b[1], b[2], b[3]]) == CRC32.checksum(&b[4..10]);
        let magic_ok = b[10] == b'Y' && b[11] == b'Z';
        match res {
            Ok(f) => {
                assert!(crc_ok && magic_ok);
                assert!(f.backward_size == u32::from_le_bytes([b[4], b[5], b[6], b[7]]));
                assert!(f.stream_flags == [b[8], b[9]]);
                assert!(r.len() == 0);
            }
            Err(e) => {
                assert!(!(crc_ok && magic_ok));
                assert!(vk::kind_of(&e) == vk::Kind::InvalidData);
            }
        }
        crate::vcover!(crc_ok && magic_ok);
    }

    /// C04.xz.hdrs / C06: StreamHeader::parse on arbitrary 12 bytes: Ok ⇔ magic ∧ flags[0]=0 ∧ supported check id ∧ crc matches.
    #[kani::proof]
    #[kani::unwind(14)]
    #[kani::stub(crate::error_invalid_data, crate::vk::err_invalid_data)]
    #[kani::stub(crate::error_eof, crate::vk::err_eof)]
    fn c04_xz_header_parse_any() {
        let b: [u8; 12] = vk::any();
        let mut r = &b[..];
        let res = StreamHeader::parse(&mut r);
        let magic_ok = b[0] == 0xFD && b[1] == b'7' && b[2] == b'z' && b[3] == b'X' && b[4] == b'Z' && b[5] == 0;
        let flags_ok = b[6] == 0 && (b[7] == 0 || b[7] == 1 || b[7] == 4 || b[7] == 10);
        let crc_ok = u32::from_le_bytes([b[8], b[9], b[10], b[11]]) == CRC32.checksum(&b[6..8]);
        match res {
            Ok(h) => {
                assert!(magic_ok && flags_ok && crc_ok);
                assert!(h.check_type as u8 == b[7]);
                assert!(r.len() == 0);
            }
            Err(e) => {
                assert!(!(magic_ok && flags_ok && crc_ok));
                assert!(vk::kind_of(&e) == vk::Kind::InvalidData);
            }
        }
        crate::vcover!(magic_ok && flags_ok && crc_ok);
    }

    // ---------------------------------------------------------------- XZReader state-machine pieces

    fn spec_header_valid(b: &[u8; 12]) -> bool {
        b[0] == 0xFD && b[1] == b'7' && b[2] == b'z' && b[3] == b'X' && b[4] == b'Z' && b[5] == 0
            && b[6] == 0 && (b[7] == 0 || b[7] == 1 || b[7] == 4 || b[7] == 10)
            && u32::from_le_bytes([b[8], b[9], b[10], b[11]]) == CRC32.checksum(&b[6..8])
    }

    /// C12.xz.pad: after a footer, p zero bytes followed by `tail_len` arbitrary bytes (first one non-zero):
    /// Ok(true) ⇔ tail is a valid 12-byte stream header ∧ p % 4 = 0 (then the new header is installed and the block
    /// counter reset); Ok(false) only at end of input; everything else is an error.
    fn xz_next_stream(p: usize, tail_len: usize) {
        let tail: [u8; 12] = vk::any();
        vk::assume(tail_len == 0 || tail[0] != 0);
        let mut buf = [0u8; 24];
        let mut i = 0;
        while i < tail_len { buf[p + i] = tail[i]; i += 1; }
        let mut r = XZReader::new(vk::Src::<24>::new(buf, p + tail_len), true);
        r.stream_header = Some(StreamHeader { check_type: CheckType::Crc32 });
        r.blocks_processed = 3;
        let res = r.try_start_next_stream();
        let valid = tail_len == 12 && spec_header_valid(&tail);
        match res {
            Ok(true) => {
                assert!(valid && p % 4 == 0);
                assert!(r.blocks_processed == 0);
                assert!(r.stream_header.as_ref().unwrap().check_type as u8 == tail[7]);
                assert!(r.compressed_bytes_read.get() == (p + 12) as u64);
            }
            Ok(false) => assert!(tail_len == 0),
            Err(e) => {
                assert!(tail_len != 0);
                assert!(!(valid && p % 4 == 0));
                assert!(vk::kind_of(&e) == vk::Kind::InvalidData || vk::kind_of(&e) == vk::Kind::Eof);
            }
        }
        if tail_len == 12 && p % 4 == 0 { crate::vcover!(valid); }
        core::mem::forget(r);
    }
    #[kani::proof]
    #[kani::unwind(26)]
    #[kani::stub(crate::error_invalid_data, crate::vk::err_invalid_data)]
    #[kani::stub(crate::error_eof, crate::vk::err_eof)]
    fn c12_xz_next_stream_p0_t12() { xz_next_stream(0, 12); }
    #[kani::proof]
    #[kani::unwind(26)]
    #[kani::stub(crate::error_invalid_data, crate::vk::err_invalid_data)]
    #[kani::stub(crate::error_eof, crate::vk::err_eof)]
    fn c12_xz_next_stream_p4_t12() { xz_next_stream(4, 12); }
    #[kani::proof]
    #[kani::unwind(26)]
    #[kani::stub(crate::error_invalid_data, crate::vk::err_invalid_data)]
    #[kani::stub(crate::error_eof, crate::vk::err_eof)]
    fn c12_xz_next_stream_p8_t12() { xz_next_stream(8, 12); }
    #[kani::proof]
    #[kani::unwind(26)]
    #[kani::stub(crate::error_invalid_data, crate::vk::err_invalid_data)]
    #[kani::stub(crate::error_eof, crate::vk::err_eof)]
    fn c12_xz_next_stream_p1_t12() { xz_next_stream(1, 12); }
    #[kani::proof]
    #[kani::unwind(26)]
    #[kani::stub(crate::error_invalid_data, crate::vk::err_invalid_data)]
    #[kani::stub(crate::error_eof, crate::vk::err_eof)]
    fn c12_xz_next_stream_p2_t12() { xz_next_stream(2, 12); }
    #[kani::proof]
    #[kani::unwind(26)]
    #[kani::stub(crate::error_invalid_data, crate::vk::err_invalid_data)]
    #[kani::stub(crate::error_eof, crate::vk::err_eof)]
    fn c12_xz_next_stream_p3_t12() { xz_next_stream(3, 12); }
    #[kani::proof]
    #[kani::unwind(26)]
    #[kani::stub(crate::error_invalid_data, crate::vk::err_invalid_data)]
    #[kani::stub(crate::error_eof, crate::vk::err_eof)]
    fn c12_xz_next_stream_p5_t12() { xz_next_stream(5, 12); }
    #[kani::proof]
    #[kani::unwind(26)]
    #[kani::stub(crate::error_invalid_data, crate::vk::err_invalid_data)]
    #[kani::stub(crate::error_eof, crate::vk::err_eof)]
    fn c12_xz_next_stream_p0_t0() { xz_next_stream(0, 0); }
    #[kani::proof]
    #[kani::unwind(26)]
    #[kani::stub(crate::error_invalid_data, crate::vk::err_invalid_data)]
    #[kani::stub(crate::error_eof, crate::vk::err_eof)]
    fn c12_xz_next_stream_p4_t0() { xz_next_stream(4, 0); }
    #[kani::proof]
    #[kani::unwind(26)]
    #[kani::stub(crate::error_invalid_data, crate::vk::err_invalid_data)]
    #[kani::stub(crate::error_eof, crate::vk::err_eof)]
    fn c12_xz_next_stream_p4_t5() { xz_next_stream(4, 5); }
    #[kani::proof]
    #[kani::unwind(26)]
    #[kani::stub(crate::error_invalid_data, crate::vk::err_invalid_data)]
    #[kani::stub(crate::error_eof, crate::vk::err_eof)]
    fn c12_xz_next_stream_p0_t1() { xz_next_stream(0, 1); }

    /// C12.xz.pad (cheap variants for the quick tier): the tail is a *valid* stream header for an arbitrary supported
    /// check type (only the check id is symbolic): Ok(true) iff p % 4 == 0, and the new stream's check type replaces
    /// the previous one (here: Sha256) and the block counter restarts.
    fn xz_next_stream_valid(p: usize) {
        let c: u8 = vk::any();
        vk::assume(c == 0 || c == 1 || c == 4 || c == 10);
        let crc = CRC32.checksum(&[0, c]).to_le_bytes();
        let tail = [0xFD, b'7', b'z', b'X', b'Z', 0, 0, c, crc[0], crc[1], crc[2], crc[3]];
        let mut buf = [0u8; 24];
        let mut i = 0;
        while i < 12 { buf[p + i] = tail[i]; i += 1; }
        let mut r = XZReader::new(vk::Src::<24>::new(buf, p + 12), true);
        r.stream_header = Some(StreamHeader { check_type: CheckType::Sha256 });
        r.blocks_processed = 2;
        let res = r.try_start_next_stream();
        if p % 4 == 0 {
            assert!(matches!(res, Ok(true)));
            assert!(r.blocks_processed == 0);
            assert!(r.stream_header.as_ref().unwrap().check_type as u8 == c);
            assert!(r.compressed_bytes_read.get() == (p + 12) as u64);
        } else {
            assert!(matches!(res, Err(ref e) if vk::kind_of(e) == vk::Kind::InvalidData));
        }
        core::mem::forget(r);
    }
    /// first byte after the padding is neither zero nor the first magic byte: always an error
    fn xz_next_stream_garbage(p: usize) {
        let g: u8 = vk::any();
        vk::assume(g != 0);
        let mut buf = [0u8; 24];
        buf[p] = g;
        let mut i = 1;
        while i < 12 { buf[p + i] = XZ_MAGIC[i % 6]; i += 1; }
        let mut r = XZReader::new(vk::Src::<24>::new(buf, p + 12), true);
        r.stream_header = Some(StreamHeader { check_type: CheckType::Crc32 });
        let res = r.try_start_next_stream();
        assert!(res.is_err());
        core::mem::forget(r);
    }
    #[kani::proof]
    #[kani::unwind(14)]
    //@ERR
    fn c12_xz_next_valid_p0() { xz_next_stream_valid(0); }
    #[kani::proof]
    #[kani::unwind(14)]
    //@ERR
    fn c12_xz_next_valid_p4() { xz_next_stream_valid(4); }
    #[kani::proof]
    #[kani::unwind(14)]
    //@ERR
    fn c12_xz_next_valid_p8() { xz_next_stream_valid(8); }
    #[kani::proof]
    #[kani::unwind(14)]
    //@ERR
    fn c12_xz_next_valid_p1() { xz_next_stream_valid(1); }
    #[kani::proof]
    #[kani::unwind(14)]
    //@ERR
    fn c12_xz_next_valid_p2() { xz_next_stream_valid(2); }
    #[kani::proof]
    #[kani::unwind(14)]
    //@ERR
    fn c12_xz_next_valid_p3() { xz_next_stream_valid(3); }
    #[kani::proof]
    #[kani::unwind(14)]
    //@ERR
    fn c12_xz_next_valid_p5() { xz_next_stream_valid(5); }
    #[kani::proof]
    #[kani::unwind(14)]
    //@ERR
    fn c12_xz_next_garbage_p0() { xz_next_stream_garbage(0); }
    #[kani::proof]
    #[kani::unwind(14)]
    //@ERR
    fn c12_xz_next_garbage_p4() { xz_next_stream_garbage(4); }

    /// C05.xz.pad / C04.xz.block: consume_padding with a source that delivers arbitrarily short reads and Interrupted:
    /// Ok ⇔ the (4 - pos%4)%4 bytes are all zero; exactly that many bytes are consumed; behaviour depends only on the bytes.
    fn xz_consume_padding(short: bool, interrupts: u8) {
        let b: [u8; 4] = vk::any();
        let start: u64 = vk::any();
        vk::assume(start < 1 << 40);
        let need = ((4 - (start % 4)) % 4) as usize;
        let mut src = vk::IoAny::<4>::new(b, 4);
        src.short = short;
        src.interrupts_left = interrupts;
        let mut r = XZReader::new(src, false);
        r.compressed_bytes_read.set(start);
        let res = r.consume_padding();
        let zeros = (need < 1 || b[0] == 0) && (need < 2 || b[1] == 0) && (need < 3 || b[2] == 0);
        match res {
            Ok(()) => {
                assert!(zeros);
                assert!(r.compressed_bytes_read.get() == start + need as u64);
                assert!(r.original_reader.borrow().pos == need);
            }
            Err(e) => {
                assert!(!zeros);
                assert!(vk::kind_of(&e) == vk::Kind::InvalidData);
            }
        }
        crate::vcover!(need == 3 && zeros);
        core::mem::forget(r);
    }
    #[kani::proof]
    #[kani::unwind(8)]
    #[kani::stub(crate::error_invalid_data, crate::vk::err_invalid_data)]
    #[kani::stub(crate::error_eof, crate::vk::err_eof)]
    fn c05_xz_consume_padding_full() { xz_consume_padding(false, 0); }
    #[kani::proof]
    #[kani::unwind(8)]
    #[kani::stub(crate::error_invalid_data, crate::vk::err_invalid_data)]
    #[kani::stub(crate::error_eof, crate::vk::err_eof)]
    fn c05_xz_consume_padding_short() { xz_consume_padding(true, 0); }
    #[kani::proof]
    #[kani::unwind(8)]
    #[kani::stub(crate::error_invalid_data, crate::vk::err_invalid_data)]
    #[kani::stub(crate::error_eof, crate::vk::err_eof)]
    fn c05_xz_consume_padding_intr() { xz_consume_padding(false, 2); }

    /// C05.xz.pad: truncation inside the padding is an error (never Ok).
    #[kani::proof]
    #[kani::unwind(8)]
    #[kani::stub(crate::error_invalid_data, crate::vk::err_invalid_data)]
    #[kani::stub(crate::error_eof, crate::vk::err_eof)]
    fn c05_xz_consume_padding_eof() {
        let avail: usize = vk::any();
        vk::assume(avail < 3);
        let start: u64 = vk::any();
        vk::assume(start < 1 << 40);
        let need = ((4 - (start % 4)) % 4) as usize;
        vk::assume(need > avail);
        let mut r = XZReader::new(vk::IoAny::<4>::new([0u8; 4], avail), false);
        r.compressed_bytes_read.set(start);
        assert!(r.consume_padding().is_err());
        core::mem::forget(r);
    }

    // ---------------------------------------------------------------- block end / checksum / zero-length reads
    static mut PREPARE_CALLS: usize = 0;
    /// contract stub for XZReader::prepare_next_block (its real body builds the filter chain and an LZMA2 decoder):
    /// here it stands for "the stream ends after this block" = the real function's None arm after a valid index/footer.
    fn prepare_stub<'reader, R: Read + 'reader>(s: &mut XZReader<'reader, R>) -> Result<bool> {
        unsafe { PREPARE_CALLS += 1; }
        s.finished = true;
        Ok(false)
    }
    static mut PAYLOAD_READS: usize = 0;
    static mut PAYLOAD_POS: usize = 0;
    /// payload-layer contract stub: stands for the filter chain + LZMA2Reader of one block: yields `len` bytes then 0.
    struct PayloadStub { data: [u8; 4], len: usize }
    impl Read for PayloadStub {
        fn read(&mut self, out: &mut [u8]) -> Result<usize> {
            unsafe {
                PAYLOAD_READS += 1;
                let avail = self.len - PAYLOAD_POS;
                let n = if out.len() < avail { out.len() } else { avail };
                out[..n].copy_from_slice(&self.data[PAYLOAD_POS..PAYLOAD_POS + n]);
                PAYLOAD_POS += n;
                Ok(n)
            }
        }
    }
    fn check_len(c: CheckType) -> usize { match c { CheckType::None => 0, CheckType::Crc32 => 4, CheckType::Crc64 => 8, CheckType::Sha256 => 32 } }
    /// spec: the Check field for `data` (xz-file-format 3.4) with the dependency's checksum functions
    fn spec_check(c: CheckType, data: &[u8], out: &mut [u8; 32]) {
        match c {
            CheckType::None => {}
            CheckType::Crc32 => { let v = CRC32.checksum(data).to_le_bytes(); let mut i = 0; while i < 4 { out[i] = v[i]; i += 1; } }
            CheckType::Crc64 => { let v = crate::xz::CRC64.checksum(data).to_le_bytes(); let mut i = 0; while i < 8 { out[i] = v[i]; i += 1; } }
            CheckType::Sha256 => { let mut s = sha2::Sha256::new(); s.update(data); let v = s.finalize(); let mut i = 0; while i < 32 { out[i] = v[i]; i += 1; } }
        }
    }

    /// C04.xz.block: XZReader::read in a block: the bytes handed to the caller are exactly the bytes fed to the
    /// checksum; at the end of the block Ok ⇒ padding is zero ∧ stored Check = check_fn(bytes yielded); any other
    /// stored value ⇒ Err(InvalidData). Source ends right after the Check field so acceptance shows as UnexpectedEof
    /// from the *next* block header read.
    fn xz_block_end(check: CheckType, pad: usize, n: usize) {
        let data: [u8; 4] = vk::any();
        let tail: [u8; 36] = vk::any();      // padding (0..3) + check field as stored in the file
        let start: u64 = 1024 + ((4 - pad) % 4) as u64;
        assert!(pad == ((4 - (start % 4)) % 4) as usize);
        let clen = check_len(check);
        let mut r = XZReader::new(vk::Src::<36>::new(tail, pad + clen), false);
        r.stream_header = Some(StreamHeader { check_type: check });
        r.checksum_calculator = Some(ChecksumCalculator::new(check));
        r.blocks_processed = 1;
        r.compressed_bytes_read.set(start);
        unsafe { PAYLOAD_READS = 0; PAYLOAD_POS = 0; PREPARE_CALLS = 0; }
        r.reader = Box::new(PayloadStub { data, len: n });
        let mut out = [0u8; 8];
        let got = r.read(&mut out[..8]);
        assert!(matches!(got, Ok(k) if k == n));
        let mut i = 0;
        while i < n { assert!(out[i] == data[i]); i += 1; }
        // second read: payload exhausted -> padding + check verification -> next block header (EOF)
        let res = r.read(&mut out[..8]);
        let mut want = [0u8; 32];
        spec_check(check, &data[..n], &mut want);
        let mut pad_ok = true;
        let mut j = 0;
        while j < pad { if tail[j] != 0 { pad_ok = false; } j += 1; }
        let mut chk_ok = true;
        let mut j = 0;
        while j < clen { if tail[pad + j] != want[j] { chk_ok = false; } j += 1; }
        match res {
            Ok(k) => {
                assert!(k == 0 && pad_ok && chk_ok);
                assert!(unsafe { PREPARE_CALLS } == 1);
                assert!(r.compressed_bytes_read.get() == start + (pad + clen) as u64);
            }
            Err(e) => {
                assert!(!(pad_ok && chk_ok));
                assert!(unsafe { PREPARE_CALLS } == 0);
                assert!(vk::kind_of(&e) == vk::Kind::InvalidData);
            }
        }
        crate::vcover!(pad_ok && chk_ok);
        core::mem::forget(r);
    }
    #[kani::proof]
    #[kani::unwind(6)]
    #[kani::stub(crate::error_invalid_data, crate::vk::err_invalid_data)]
    #[kani::stub(crate::error_eof, crate::vk::err_eof)]
    #[kani::stub(XZReader::prepare_next_block, prepare_stub)]
    fn c04_xz_block_end_none_p0() { xz_block_end(CheckType::None, 0, 2); }
    #[kani::proof]
    #[kani::unwind(6)]
    #[kani::stub(crate::error_invalid_data, crate::vk::err_invalid_data)]
    #[kani::stub(crate::error_eof, crate::vk::err_eof)]
    #[kani::stub(XZReader::prepare_next_block, prepare_stub)]
    fn c04_xz_block_end_none_p3() { xz_block_end(CheckType::None, 3, 1); }
    #[kani::proof]
    #[kani::unwind(8)]
    #[kani::stub(crate::error_invalid_data, crate::vk::err_invalid_data)]
    #[kani::stub(crate::error_eof, crate::vk::err_eof)]
    #[kani::stub(XZReader::prepare_next_block, prepare_stub)]
    fn c04_xz_block_end_crc32_p0() { xz_block_end(CheckType::Crc32, 0, 3); }
    #[kani::proof]
    #[kani::unwind(8)]
    #[kani::stub(crate::error_invalid_data, crate::vk::err_invalid_data)]
    #[kani::stub(crate::error_eof, crate::vk::err_eof)]
    #[kani::stub(XZReader::prepare_next_block, prepare_stub)]
    fn c04_xz_block_end_crc32_p1() { xz_block_end(CheckType::Crc32, 1, 2); }
    #[kani::proof]
    #[kani::unwind(8)]
    #[kani::stub(crate::error_invalid_data, crate::vk::err_invalid_data)]
    #[kani::stub(crate::error_eof, crate::vk::err_eof)]
    #[kani::stub(XZReader::prepare_next_block, prepare_stub)]
    fn c04_xz_block_end_crc32_p2() { xz_block_end(CheckType::Crc32, 2, 1); }
    #[kani::proof]
    #[kani::unwind(8)]
    #[kani::stub(crate::error_invalid_data, crate::vk::err_invalid_data)]
    #[kani::stub(crate::error_eof, crate::vk::err_eof)]
    #[kani::stub(XZReader::prepare_next_block, prepare_stub)]
    fn c04_xz_block_end_crc32_p3() { xz_block_end(CheckType::Crc32, 3, 2); }
    #[kani::proof]
    #[kani::unwind(10)]
    #[kani::stub(crate::error_invalid_data, crate::vk::err_invalid_data)]
    #[kani::stub(crate::error_eof, crate::vk::err_eof)]
    #[kani::stub(XZReader::prepare_next_block, prepare_stub)]
    fn c04_xz_block_end_crc64_p3() { xz_block_end(CheckType::Crc64, 3, 2); }
    #[kani::proof]
    #[kani::unwind(10)]
    #[kani::stub(crate::error_invalid_data, crate::vk::err_invalid_data)]
    #[kani::stub(crate::error_eof, crate::vk::err_eof)]
    #[kani::stub(XZReader::prepare_next_block, prepare_stub)]
    fn c04_xz_block_end_crc64_p0() { xz_block_end(CheckType::Crc64, 0, 1); }
    #[kani::proof]
    #[kani::unwind(34)]
    #[kani::stub(crate::error_invalid_data, crate::vk::err_invalid_data)]
    #[kani::stub(crate::error_eof, crate::vk::err_eof)]
    #[kani::stub(XZReader::prepare_next_block, prepare_stub)]
    fn c04_xz_block_end_sha256_p1() { xz_block_end(CheckType::Sha256, 1, 2); }

    /// C07.zero: a zero-length read inside a block returns Ok(0) and disturbs nothing: the block stays open, nothing
    /// is consumed from the source, the next read still yields the block's bytes.
    #[kani::proof]
    #[kani::unwind(10)]
    #[kani::stub(crate::error_invalid_data, crate::vk::err_invalid_data)]
    #[kani::stub(crate::error_eof, crate::vk::err_eof)]
    #[kani::stub(XZReader::prepare_next_block, prepare_stub)]
    fn c07_xz_zero_read_in_block() {
        let data: [u8; 4] = vk::any();
        let tail: [u8; 8] = vk::any();
        let mut r = XZReader::new(vk::Src::<8>::new(tail, 8), false);
        r.stream_header = Some(StreamHeader { check_type: CheckType::Crc32 });
        r.checksum_calculator = Some(ChecksumCalculator::new(CheckType::Crc32));
        r.blocks_processed = 1;
        r.compressed_bytes_read.set(24);
        unsafe { PAYLOAD_READS = 0; PAYLOAD_POS = 0; PREPARE_CALLS = 0; }
        r.reader = Box::new(PayloadStub { data, len: 2 });
        let mut out = [0u8; 4];
        let z = r.read(&mut out[..0]);
        assert!(matches!(z, Ok(0)));
        assert!(r.checksum_calculator.is_some());
        assert!(!r.finished);
        assert!(r.compressed_bytes_read.get() == 24);
        assert!(r.original_reader.borrow().pos == 0);
        let got = r.read(&mut out[..4]);
        assert!(matches!(got, Ok(2)));
        assert!(out[0] == data[0] && out[1] == data[1]);
        core::mem::forget(r);
    }

    /// C07.zero: zero-length read after the end of the stream / before the first byte.
    #[kani::proof]
    #[kani::unwind(10)]
    #[kani::stub(crate::error_invalid_data, crate::vk::err_invalid_data)]
    #[kani::stub(crate::error_eof, crate::vk::err_eof)]
    #[kani::stub(XZReader::prepare_next_block, prepare_stub)]
    fn c07_xz_zero_read_fresh_and_finished() {
        let tail: [u8; 8] = vk::any();
        let mut r = XZReader::new(vk::Src::<8>::new(tail, 8), false);
        let mut out = [0u8; 1];
        assert!(matches!(r.read(&mut out[..0]), Ok(0)));
        assert!(r.original_reader.borrow().pos == 0);   // nothing consumed, nothing required
        r.finished = true;
        assert!(matches!(r.read(&mut out[..0]), Ok(0)));
        assert!(matches!(r.read(&mut out[..1]), Ok(0)));
        assert!(r.original_reader.borrow().pos == 0);
        core::mem::forget(r);
    }

    fn vec_cap_stub<T>(cap: usize) -> Vec<T> {
        // allocation bound of C06: a parser may pre-allocate a small constant (<= 64 KiB) or in proportion to its input,
        // never an amount taken from an unchecked header field
        assert!(cap.saturating_mul(core::mem::size_of::<T>()) <= 65536, "pre-allocation taken from an unchecked input field");
        Vec::new()
    }
    /// C06.xz.parse (allocation bound, D12): an index whose record count is any value of encoded length k, followed by
    /// `extra` arbitrary bytes and then end of input: Index::parse returns (no panic / abort) and never pre-allocates
    /// more than 4x the bytes it was given.
    fn xz_index_count(k: usize, extra: usize) {
        use crate::xz::verif_kani::mbi_in_class;
        let count: u64 = vk::any();
        vk::assume(mbi_in_class(count, k));
        let mut buf = [0u8; 16];
        let off = spec_mbi_put(&mut buf, 0, count, k);
        let rest: [u8; 4] = vk::any();
        let mut i = 0;
        while i < extra { buf[off + i] = rest[i]; i += 1; }
        let mut r = &buf[..off + extra];
        let res = Index::parse(&mut r);
        if let Ok(idx) = res {
            assert!(idx.number_of_records as usize == idx.records.len());
            assert!(idx.number_of_records <= 1);
        }
    }
    #[kani::proof]
    #[kani::unwind(6)]
    #[kani::stub(crate::error_invalid_data, crate::vk::err_invalid_data)]
    #[kani::stub(crate::error_eof, crate::vk::err_eof)]
    #[kani::stub(alloc::vec::Vec::with_capacity, vec_cap_stub)]
    fn c06_xz_index_count_k1_e0() { xz_index_count(1, 0); }
    #[kani::proof]
    #[kani::unwind(6)]
    #[kani::stub(crate::error_invalid_data, crate::vk::err_invalid_data)]
    #[kani::stub(crate::error_eof, crate::vk::err_eof)]
    #[kani::stub(alloc::vec::Vec::with_capacity, vec_cap_stub)]
    fn c06_xz_index_count_k1_e4() { xz_index_count(1, 4); }
    #[kani::proof]
    #[kani::unwind(6)]
    #[kani::stub(crate::error_invalid_data, crate::vk::err_invalid_data)]
    #[kani::stub(crate::error_eof, crate::vk::err_eof)]
    #[kani::stub(alloc::vec::Vec::with_capacity, vec_cap_stub)]
    fn c06_xz_index_count_k2_e0() { xz_index_count(2, 0); }
    #[kani::proof]
    #[kani::unwind(6)]
    #[kani::stub(crate::error_invalid_data, crate::vk::err_invalid_data)]
    #[kani::stub(crate::error_eof, crate::vk::err_eof)]
    #[kani::stub(alloc::vec::Vec::with_capacity, vec_cap_stub)]
    fn c06_xz_index_count_k2_e3() { xz_index_count(2, 3); }
    #[kani::proof]
    #[kani::unwind(6)]
    #[kani::stub(crate::error_invalid_data, crate::vk::err_invalid_data)]
    #[kani::stub(crate::error_eof, crate::vk::err_eof)]
    #[kani::stub(alloc::vec::Vec::with_capacity, vec_cap_stub)]
    fn c06_xz_index_count_k5_e2() { xz_index_count(5, 2); }
    #[kani::proof]
    #[kani::unwind(11)]
    #[kani::stub(crate::error_invalid_data, crate::vk::err_invalid_data)]
    #[kani::stub(crate::error_eof, crate::vk::err_eof)]
    #[kani::stub(alloc::vec::Vec::with_capacity, vec_cap_stub)]
    fn c06_xz_index_count_k9_e0() { xz_index_count(9, 0); }
    #[kani::proof]
    #[kani::unwind(11)]
    #[kani::stub(crate::error_invalid_data, crate::vk::err_invalid_data)]
    #[kani::stub(crate::error_eof, crate::vk::err_eof)]
    #[kani::stub(alloc::vec::Vec::with_capacity, vec_cap_stub)]
    fn c06_xz_index_count_k9_e4() { xz_index_count(9, 4); }

    /// BlockHeader::parse by contract for these inputs: the next byte is the index indicator 0x00 => Ok(None)
    fn bh_index_follows<R: Read>(reader: &mut R) -> Result<Option<BlockHeader>> {
        let b = reader.read_u8()?;
        assert!(b == 0);
        Ok(None)
    }
    static mut INDEX_CALLS: u32 = 0;
    static mut NEXT_CALLS: u32 = 0;
    static mut NEXT_RESULT: bool = false;
    /// contract stubs (each proved by its own unit: C02.xz.index.r / C04.xz.hdrs resp. C12.xz.pad): here only *whether* and
    /// *in which order* they are called matters
    fn index_footer_stub<'r, R: Read + 'r>(_s: &mut XZReader<'r, R>) -> Result<()> { unsafe { INDEX_CALLS += 1; } Ok(()) }
    fn next_stream_stub<'r, R: Read + 'r>(s: &mut XZReader<'r, R>) -> Result<bool> {
        unsafe {
            assert!(INDEX_CALLS > NEXT_CALLS);          // only after the previous stream's index and footer were verified
            NEXT_CALLS += 1;
            if NEXT_RESULT && NEXT_CALLS == 1 { s.blocks_processed = 0; return Ok(true); }
            Ok(false)
        }
    }

    /// C16.xz.stop / C12.xz.next: control flow at the end of the blocks: the index and footer are always verified; in
    /// single-stream mode the reader then is finished *without touching the source again* (no look-ahead for a next
    /// stream); in multi-stream mode it looks for a next stream exactly once per finished stream and continues with its
    /// blocks when there is one.
    fn xz_end_of_blocks(multi: bool, next: bool) {
        let buf: [u8; 4] = [0, 0, 7, 7];
        unsafe { INDEX_CALLS = 0; NEXT_CALLS = 0; NEXT_RESULT = next; }
        let mut r = XZReader::new(vk::Src::<4>::new(buf, 4), multi);
        r.stream_header = Some(StreamHeader { check_type: CheckType::Crc32 });
        let res = r.prepare_next_block();
        assert!(matches!(res, Ok(false)));
        assert!(r.finished);
        if !multi {
            assert!(unsafe { INDEX_CALLS } == 1 && unsafe { NEXT_CALLS } == 0);
            assert!(r.original_reader.borrow().pos == 1);      // only the index indicator was read by this function
        } else if next {
            // second stream (here again without blocks) was entered and finished too
            assert!(unsafe { INDEX_CALLS } == 2 && unsafe { NEXT_CALLS } == 2);
            assert!(r.original_reader.borrow().pos == 2);
        } else {
            assert!(unsafe { INDEX_CALLS } == 1 && unsafe { NEXT_CALLS } == 1);
        }
        core::mem::forget(r);
    }
    #[kani::proof]
    #[kani::unwind(6)]
    //@ERR
    #[kani::stub(BlockHeader::parse, bh_index_follows)]
    #[kani::stub(XZReader::parse_index_and_footer, index_footer_stub)]
    #[kani::stub(XZReader::try_start_next_stream, next_stream_stub)]
    fn c16_xz_end_of_blocks_single() { xz_end_of_blocks(false, false); }
    #[kani::proof]
    #[kani::unwind(6)]
    //@ERR
    #[kani::stub(BlockHeader::parse, bh_index_follows)]
    #[kani::stub(XZReader::parse_index_and_footer, index_footer_stub)]
    #[kani::stub(XZReader::try_start_next_stream, next_stream_stub)]
    fn c16_xz_end_of_blocks_single_ignores_next() { xz_end_of_blocks(false, true); }
    #[kani::proof]
    #[kani::unwind(6)]
    //@ERR
    #[kani::stub(BlockHeader::parse, bh_index_follows)]
    #[kani::stub(XZReader::parse_index_and_footer, index_footer_stub)]
    #[kani::stub(XZReader::try_start_next_stream, next_stream_stub)]
    fn c16_xz_end_of_blocks_multi_none() { xz_end_of_blocks(true, false); }
    #[kani::proof]
    #[kani::unwind(6)]
    //@ERR
    #[kani::stub(BlockHeader::parse, bh_index_follows)]
    #[kani::stub(XZReader::parse_index_and_footer, index_footer_stub)]
    #[kani::stub(XZReader::try_start_next_stream, next_stream_stub)]
    fn c16_xz_end_of_blocks_multi_next() { xz_end_of_blocks(true, true); }

    // ---------------------------------------------------------------- C06.xz.bhdr: BlockHeader::parse on arbitrary bytes
    /// For a declared header size of (s+1)*4 bytes with ARBITRARY content (flags, optional sizes, 1..4 filter records,
    /// padding, CRC field): parse returns without panicking (index / slice bounds, arithmetic: default obligations);
    /// Ok(Some) => exactly the declared bytes were consumed, the stored CRC equals crc_fn(size byte + body), the last
    /// filter is LZMA2 and no filter follows it, every recorded property is inside its decodable range.
    fn bh_total(size_byte: u8) {
        let mut b: [u8; 24] = vk::any();
        b[0] = size_byte;
        let hs = (size_byte as usize + 1) * 4;
        let mut r = vk::Src::<24>::new(b, 24);
        let res = BlockHeader::parse(&mut r);
        match res {
            Ok(Some(h)) => {
                assert!(r.pos == hs);
                let crc = CRC32.checksum(&b[..hs - 4]);
                assert!(u32::from_le_bytes([b[hs - 4], b[hs - 3], b[hs - 2], b[hs - 1]]) == crc);
                let n = (b[1] & 3) as usize + 1;
                assert!(h.filters[n - 1] == Some(FilterType::LZMA2));
                let mut i = 0;
                while i < 4 {
                    if i >= n { assert!(h.filters[i].is_none()); }
                    if i + 1 < n { assert!(h.filters[i].is_some()); }
                    if h.filters[i] == Some(FilterType::Delta) { assert!(h.properties[i] >= 1 && h.properties[i] <= 256); }
                    i += 1;
                }
                assert!(h.properties[n - 1] >= 4096);
                assert!(b[1] & 0x3C == 0, "reserved block flag bits must be rejected");
            }
            Ok(None) => assert!(false, "non-zero size byte taken for the index indicator"),
            Err(_) => { assert!(r.pos <= hs); }
        }
    }
    #[kani::proof]
    #[kani::unwind(11)]
    //@ERR
    #[kani::stub(crate::xz::parse_multibyte_integer, crate::xz::verif_kani::mbi_parse_contract)]
    #[kani::stub(crate::xz::count_multibyte_integer_size, crate::xz::verif_kani::mbi_count_contract)]
    fn c06_xz_block_header_total_s1() { bh_total(1); }
    #[kani::proof]
    #[kani::unwind(11)]
    //@ERR
    #[kani::stub(crate::xz::parse_multibyte_integer, crate::xz::verif_kani::mbi_parse_contract)]
    #[kani::stub(crate::xz::count_multibyte_integer_size, crate::xz::verif_kani::mbi_count_contract)]
    fn c06_xz_block_header_total_s2() { bh_total(2); }
    #[kani::proof]
    #[kani::unwind(11)]
    //@ERR
    #[kani::stub(crate::xz::parse_multibyte_integer, crate::xz::verif_kani::mbi_parse_contract)]
    #[kani::stub(crate::xz::count_multibyte_integer_size, crate::xz::verif_kani::mbi_count_contract)]
    fn c06_xz_block_header_total_s3() { bh_total(3); }
    #[kani::proof]
    #[kani::unwind(11)]
    //@ERR
    #[kani::stub(crate::xz::parse_multibyte_integer, crate::xz::verif_kani::mbi_parse_contract)]
    #[kani::stub(crate::xz::count_multibyte_integer_size, crate::xz::verif_kani::mbi_count_contract)]
    fn c06_xz_block_header_total_s5() { bh_total(5); }
