    // ===== src/work_queue.rs =====

    static mut NOTIFIES: u32 = 0;
    /// Condvar::notify_* by contract: wakes waiters (a futex syscall Kani cannot execute); sequentially a no-op + ghost count
    fn notify_stub(_c: &Condvar) { unsafe { NOTIFIES += 1; } }

    /// C08.queue: sequential semantics of the work queue: FIFO, every pushed item is handed out exactly once, push after
    /// close is refused, a closed and drained queue reports end of work without blocking.
    #[kani::proof]
    #[kani::unwind(6)]
    #[kani::stub(std::sync::Condvar::notify_one, notify_stub)]
    #[kani::stub(std::sync::Condvar::notify_all, notify_stub)]
    fn c08_queue_fifo() {
        let q: WorkStealingQueue<u32> = WorkStealingQueue::new();
        let w = q.worker();
        let w2 = w.clone();
        let (a, b, c): (u32, u32, u32) = (vk::any(), vk::any(), vk::any());
        assert!(q.is_empty() && q.len() == 0 && !w.is_closed_and_empty());
        assert!(w.try_steal().is_none());
        assert!(q.push(a) && q.push(b));
        assert!(q.len() == 2);
        assert!(w.steal() == Some(a));
        assert!(q.push(c));
        assert!(w2.try_steal() == Some(b));
        q.close();
        assert!(!q.push(7));                       // refused, nothing enqueued
        assert!(q.len() == 1 && !w.is_closed_and_empty());
        assert!(w.steal() == Some(c));             // remaining work is still handed out after close
        assert!(w.is_closed_and_empty());
        assert!(w.steal().is_none() && w2.steal().is_none() && w.try_steal().is_none());
    }

    static mut GUARD_MUTEX: *const Mutex<VecDeque<u32>> = core::ptr::null();
    static mut STORES: u32 = 0;
    /// monitor discipline check: every write of the `closed` flag - a variable the condition-variable wait predicate in
    /// `steal` reads - must happen while the mutex paired with the condvar is held; otherwise a worker that has tested the
    /// flag but not yet gone to sleep misses the notification (lost wake-up, the worker thread never terminates).
    fn store_stub(this: &AtomicBool, val: bool, order: core::sync::atomic::Ordering) {
        unsafe {
            STORES += 1;
            if !GUARD_MUTEX.is_null() {
                let held = (*GUARD_MUTEX).try_lock().is_err();
                assert!(held, "closed flag written without holding the queue mutex (lost wake-up possible)");
            }
        }
        let _ = order;
        this.swap(val, core::sync::atomic::Ordering::SeqCst);
    }

    /// C10.lock: `close` changes the wait predicate only under the queue mutex, and notifies afterwards.
    #[kani::proof]
    #[kani::unwind(6)]
    #[kani::stub(core::sync::atomic::Atomic::<bool>::store, store_stub)]
    #[kani::stub(std::sync::Condvar::notify_one, notify_stub)]
    #[kani::stub(std::sync::Condvar::notify_all, notify_stub)]
    fn c10_queue_close_lock_discipline() {
        let q: WorkStealingQueue<u32> = WorkStealingQueue::new();
        let w = q.worker();
        unsafe { GUARD_MUTEX = &q.inner.queue as *const _; STORES = 0; }
        assert!(q.push(1));
        unsafe { NOTIFIES = 0; }
        q.close();
        assert!(unsafe { STORES } == 1);
        assert!(unsafe { NOTIFIES } >= 1);          // waiters are notified after the flag changed
        // the mutex is released again and the flag is visible
        assert!(q.inner.queue.try_lock().is_ok());
        assert!(!q.push(2));
        assert!(w.steal() == Some(1) && w.steal().is_none());
        unsafe { GUARD_MUTEX = core::ptr::null(); }
    }
