    // ===== src/lzma_reader.rs =====

    /// C17.dec: decoder memory estimate for every (dict_size, lc, lp): Err exactly outside the documented ranges, no
    /// overflow, and KiB*1024 >= dictionary buffer (rounded, at least 4 KiB) + probability tables 2*0x300*2^(lc+lp).
    #[kani::proof]
    #[kani::unwind(2)]
    //@ERR
    fn c17_lzma_memory_usage() {
        let d: u32 = vk::any();
        let lc: u32 = vk::any();
        let lp: u32 = vk::any();
        match get_memory_usage(d, lc, lp) {
            Err(e) => {
                assert!(d > DICT_SIZE_MAX || lc > 8 || lp > 4);
                assert!(vk::kind_of(&e) == vk::Kind::InvalidInput);
            }
            Ok(kib) => {
                assert!(d <= DICT_SIZE_MAX && lc <= 8 && lp <= 4);
                let dict = core::cmp::max(d as u64, 4096);
                let rounded = (dict + 15) & !15;
                let probs = (2u64 * 0x300) << (lc + lp);
                assert!(kib as u64 * 1024 + 2048 >= rounded + probs);
                assert!(kib as u64 * 1024 <= rounded + probs + 16 * 1024);
            }
        }
        let props: u8 = vk::any();
        match get_memory_usage_by_props(d, props) {
            Err(e) => {
                assert!(d > DICT_SIZE_MAX || props > 224);
                assert!(vk::kind_of(&e) == vk::Kind::InvalidInput);
            }
            Ok(kib) => {
                let plc = (props % 9) as u32;
                let plp = ((props % 45) / 9) as u32;
                assert!(matches!(get_memory_usage(d, plc, plp), Ok(k) if k == kib));
            }
        }
    }

    static mut LZ_NEW: (u32, usize) = (0, 0);
    static mut DEC_NEW: (u32, u32, u32, u32) = (0, 0, 0, 0);
    fn lz_new_stub(dict_size: usize, _preset: Option<&[u8]>) -> LZDecoder {
        unsafe { LZ_NEW = (LZ_NEW.0 + 1, dict_size); }
        LZDecoder::default()
    }
    fn dec_new_stub(lc: u32, lp: u32, pb: u32) -> LZMADecoder {
        unsafe {
            DEC_NEW = (DEC_NEW.0 + 1, lc, lp, pb);
            core::mem::MaybeUninit::<LZMADecoder>::zeroed().assume_init()
        }
    }

    /// C17.limit / C06.lzma.ctor / C19.props: LZMAReader::new_mem_limit on an arbitrary 13-byte .lzma header + 5 bytes and
    /// an arbitrary limit: a header whose parameters need more than the limit is refused with OutOfMemory *before*
    /// anything is allocated; invalid properties are refused; otherwise the dictionary allocated is the rounded
    /// (size-clamped) dictionary, never more than the estimate, and the decoder gets exactly the header's lc/lp/pb.
    #[kani::proof]
    #[kani::unwind(8)]
    //@ERR
    #[kani::stub(crate::lz::LZDecoder::new, lz_new_stub)]
    #[kani::stub(crate::decoder::LZMADecoder::new, dec_new_stub)]
    fn c17_lzma_new_mem_limit() {
        let h: [u8; 18] = vk::any();
        let limit: u32 = vk::any();
        unsafe { LZ_NEW = (0, 0); DEC_NEW = (0, 0, 0, 0); }
        let props = h[0];
        let dict = u32::from_le_bytes([h[1], h[2], h[3], h[4]]);
        let size = u64::from_le_bytes([h[5], h[6], h[7], h[8], h[9], h[10], h[11], h[12]]);
        let res = LZMAReader::new_mem_limit(vk::Src::<18>::new(h, 18), limit, None);
        let need = get_memory_usage_by_props(dict, props);
        match (&res, &need) {
            (Err(e), Err(_)) => {
                assert!(vk::kind_of(e) == vk::Kind::InvalidInput);
                assert!(unsafe { LZ_NEW.0 } == 0 && unsafe { DEC_NEW.0 } == 0);
            }
            (Err(e), Ok(n)) => {
                if *n > limit {
                    assert!(vk::kind_of(e) == vk::Kind::OutOfMemory);
                    assert!(unsafe { LZ_NEW.0 } == 0 && unsafe { DEC_NEW.0 } == 0);
                } else {
                    // only the range coder preamble can still be wrong (first byte must be zero)
                    assert!(h[13] != 0 && vk::kind_of(e) == vk::Kind::InvalidInput);
                }
            }
            (Ok(r), Ok(n)) => {
                assert!(*n <= limit && h[13] == 0);
                let pb = (props / 45) as u32; let lp = ((props % 45) / 9) as u32; let lc = (props % 9) as u32;
                assert!(unsafe { DEC_NEW } == (1, lc, lp, pb));
                let alloc = unsafe { LZ_NEW.1 } as u64;
                assert!(unsafe { LZ_NEW.0 } == 1);
                assert!(alloc <= *n as u64 * 1024);
                assert!(alloc >= 4096 && alloc % 16 == 0);
                let want = if size <= u64::MAX / 2 && (core::cmp::max(dict as u64, 4096) + 15) & !15 > size { core::cmp::max(size as u32 as u64, 4096) } else { core::cmp::max(dict as u64, 4096) };
                assert!(alloc == (want + 15) & !15);
                assert!(r.remaining_size == size && !r.end_reached);
            }
            (Ok(_), Err(_)) => assert!(false),
        }
        crate::vcover!(res.is_ok());
        core::mem::forget(res);
    }

    /// scaffolding: an LZMAReader whose decoder storage is zeroed (never driven) around a given range decoder
    pub(crate) fn mk_reader_zeroed<R>(rc: RangeDecoder<R>) -> LZMAReader<R> {
        unsafe {
            let mut m = core::mem::MaybeUninit::<LZMAReader<R>>::zeroed();
            let p = m.as_mut_ptr();
            core::ptr::addr_of_mut!((*p).rc).write(rc);
            core::ptr::addr_of_mut!((*p).lz).write(LZDecoder::default());
            m.assume_init()
        }
    }

    // ---------------------------------------------------------------- C16.l1.end: exact consumption at the end marker
    /// The end marker is met with the range decoder in ANY state (range below 2^24 - one more input byte is due - or not):
    /// read returns the bytes decoded before it, the stream is finished, the range decoder has been normalised (the
    /// final byte of the LZMA stream is consumed, no byte beyond it), and later reads return Ok(0) without touching the
    /// source. `first` = bytes decoded in the same call before the marker (0: the marker is the first symbol of the call).
    fn lzma_end_marker(first: usize) {
        use crate::decoder::verif_kani::{DEC_CALLS, DEC_BYTES_FIRST};
        unsafe { DEC_CALLS = 0; DEC_BYTES_FIRST = first; }
        let range: u32 = vk::any();
        // range-coder invariant between symbols (C01.rc.step: probabilities stay in [31, 2^11-31]): range >= (2^24 >> 11) * 31 > 2^16,
        // so one normalisation step brings it back to >= 2^24
        vk::assume(range >= 1 << 16);
        // the code value is such that the stream ends cleanly (code == 0 after the final normalisation)
        let src = vk::Src::<4>::new([0, 0x55, 0x66, 0x77], 4);
        let mut r = core::mem::ManuallyDrop::new(mk_reader_zeroed(crate::range_dec::verif_kani::mk_decoder(src, range, 0)));
        r.lz = LZDecoder::new(16, None);
        r.remaining_size = u64::MAX;
        r.relaxed_end_cond = false;
        r.end_reached = false;
        let mut buf = [0u8; 8];
        let res = r.read_decode(&mut buf);
        match res { Ok(n) => assert!(n == first), Err(_) => assert!(false, "clean end marker reported as an error") }
        if first > 0 { assert!(buf[0] == 0x41); }
        assert!(r.end_reached);
        assert!(crate::range_dec::verif_kani::rc_view(&r.rc).0 >= 0x0100_0000, "range decoder not normalised after the end marker: the last byte of the stream was not consumed");
        let due = if range < 0x0100_0000 { 1 } else { 0 };
        assert!(crate::range_dec::verif_kani::rc_view(&r.rc).2.pos == due, "bytes consumed at the end marker differ from what the range coder needs");
        assert!(matches!(r.read_decode(&mut buf), Ok(0)) && crate::range_dec::verif_kani::rc_view(&r.rc).2.pos == due);
        crate::vcover!(range < 0x0100_0000);
        crate::vcover!(range >= 0x0100_0000);
    }
    #[kani::proof]
    #[kani::unwind(10)]
    //@ERR
    #[kani::stub(crate::decoder::LZMADecoder::decode, crate::decoder::verif_kani::dec_script_stub)]
    fn c16_lzma_end_marker_first_symbol() { lzma_end_marker(0); }
    #[kani::proof]
    #[kani::unwind(10)]
    //@ERR
    #[kani::stub(crate::decoder::LZMADecoder::decode, crate::decoder::verif_kani::dec_script_stub)]
    fn c16_lzma_end_marker_after_bytes() { lzma_end_marker(2); }
