    // ===== src/lzma2_reader.rs : chunk protocol (reader side) =====

    static mut DEC_NEW: (u32, u32, u32, u32) = (0, 0, 0, 0);   // (calls, lc, lp, pb)
    static mut DEC_RESET: u32 = 0;
    static mut PREPARE: (u32, usize) = (0, 0);               // (calls, len)
    /// payload-layer stubs: LZMADecoder::new -> zeroed object (ghost-records its arguments), LZMADecoder::reset -> ghost
    /// count, RangeDecoder::prepare -> ghost-records the compressed size (the real prepare is C05.rc.buf).
    fn dec_new_stub(lc: u32, lp: u32, pb: u32) -> LZMADecoder {
        unsafe {
            DEC_NEW = (DEC_NEW.0 + 1, lc, lp, pb);
            core::mem::MaybeUninit::<LZMADecoder>::zeroed().assume_init()
        }
    }
    fn dec_reset_stub(_s: &mut LZMADecoder) { unsafe { DEC_RESET += 1; } }
    fn prepare_stub<R: Read + ByteReader>(_s: &mut RangeDecoder<RangeDecoderBuffer>, _reader: R, len: usize) -> crate::Result<()> {
        unsafe { PREPARE = (PREPARE.0 + 1, len); }
        Ok(())
    }

    /// C01.l2.hdr / C03.lzma2.valid / C04.lzma.struct / C06.lzma2.hdr / C16.l2.exact: decode_chunk_header on 6 arbitrary
    /// bytes from every flag state: the LZMA2 control-byte grammar of the xz specification.
    #[kani::proof]
    #[kani::unwind(8)]
    //@ERR
    #[kani::stub(crate::decoder::LZMADecoder::new, dec_new_stub)]
    #[kani::stub(crate::decoder::LZMADecoder::reset, dec_reset_stub)]
    #[kani::stub(RangeDecoder::prepare, prepare_stub)]
    fn c01_l2_chunk_header() {
        let h: [u8; 6] = vk::any();
        let need_dict_reset: bool = vk::any();
        let need_props: bool = vk::any();
        unsafe { DEC_NEW = (0, 0, 0, 0); DEC_RESET = 0; PREPARE = (0, 0); }
        let mut r = LZMA2Reader::new(vk::Src::<6>::new(h, 6), 4096, None);
        r.need_dict_reset = need_dict_reset;
        r.need_props = need_props;
        if !need_props { r.lzma = Some(dec_new_stub(0, 0, 0)); unsafe { DEC_NEW = (0, 0, 0, 0); } }
        // some history in the dictionary so that a reset is observable
        r.lz.put_byte(7);
        let res = r.decode_chunk_header();
        let c = h[0];
        let be = |a: u8, b: u8| ((a as usize) << 8) | b as usize;
        let dict_reset = c >= 0xE0 || c == 0x01;
        let consumed = r.inner.pos;
        if c == 0 {
            assert!(res.is_ok() && r.end_reached && consumed == 1);
        } else if !dict_reset && need_dict_reset {
            assert!(res.is_err());                    // first chunk must reset the dictionary
        } else if c >= 0x80 {
            let new_props = c >= 0xC0;
            let props = h[5];
            let pb = props / 45; let lp = (props % 45) / 9; let lc = props % 9;
            let props_ok = props <= 224 && lc + lp <= 4;
            // after a dictionary reset new properties are required as well
            let props_missing = !new_props && (need_props || dict_reset);
            if (new_props && !props_ok) || props_missing {
                assert!(res.is_err());
                assert!(unsafe { PREPARE.0 } == 0);
            } else {
                assert!(res.is_ok());
                assert!(r.is_lzma_chunk && !r.end_reached);
                assert!(r.uncompressed_size == (((c & 0x1F) as usize) << 16) + be(h[1], h[2]) + 1);
                assert!(unsafe { PREPARE } == (1, be(h[3], h[4]) + 1));
                assert!(consumed == if new_props { 6 } else { 5 });
                if new_props {
                    assert!(unsafe { DEC_NEW } == (1, lc as u32, lp as u32, pb as u32));
                    assert!(!r.need_props);
                } else {
                    assert!(unsafe { DEC_NEW.0 } == 0);
                    assert!(unsafe { DEC_RESET } == if c >= 0xA0 { 1 } else { 0 });
                }
                assert!(!r.need_dict_reset);
            }
        } else if c > 0x02 {
            assert!(res.is_err());                    // 0x03..0x7F reserved
        } else {
            assert!(res.is_ok());
            assert!(!r.is_lzma_chunk && !r.end_reached);
            assert!(r.uncompressed_size == be(h[1], h[2]) + 1);
            assert!(consumed == 3 && unsafe { PREPARE.0 } == 0);
            assert!(!r.need_dict_reset);
            if c == 0x01 { assert!(r.need_props); }
        }
        if res.is_ok() && dict_reset { assert!(r.lz.get_pos() == 0 && !r.lz.has_pending()); }
        if res.is_ok() && c != 0 && !dict_reset { assert!(r.lz.get_pos() == 1); }
        if let Err(e) = &res { assert!(vk::kind_of(e) == vk::Kind::InvalidInput); }
        crate::vcover!(res.is_ok() && c >= 0xE0);
        crate::vcover!(res.is_ok() && c >= 0x80 && c < 0xA0);
        crate::vcover!(res.is_ok() && c == 2);
        core::mem::forget(r);
    }

    /// C05 / C16.l2.exact: truncated chunk header (source ends inside it) is an error, never a silent end of stream.
    #[kani::proof]
    #[kani::unwind(8)]
    //@ERR
    #[kani::stub(crate::decoder::LZMADecoder::new, dec_new_stub)]
    #[kani::stub(crate::decoder::LZMADecoder::reset, dec_reset_stub)]
    #[kani::stub(RangeDecoder::prepare, prepare_stub)]
    fn c05_l2_chunk_header_truncated() {
        let h: [u8; 6] = vk::any();
        let avail: usize = vk::any();
        vk::assume(avail <= 5);
        let mut r = LZMA2Reader::new(vk::Src::<6>::new(h, avail), 4096, None);
        r.need_dict_reset = vk::any();
        r.need_props = true;
        let res = r.decode_chunk_header();
        let c = h[0];
        let need = if avail == 0 { 1 } else if c == 0 { 1 } else if c >= 0xC0 { 6 } else if c >= 0x80 { 5 } else { 3 };
        if avail < need && res.is_ok() { assert!(false); }
        if avail == 0 { assert!(matches!(res, Err(ref e) if vk::kind_of(e) == vk::Kind::Eof)); }
        assert!(!(avail == 0 && r.end_reached));
        core::mem::forget(r);
    }

    /// C17.dec / C06.lzma2.hdr (D13): dictionary size rounding and the memory estimate never overflow, for every u32.
    #[kani::proof]
    #[kani::unwind(2)]
    fn c17_lzma2_memory_usage() {
        let d: u32 = vk::any();
        let rounded = get_dict_size(d);
        assert!(rounded >= d || d > 0xFFFF_FFF0);
        assert!(rounded >= 0xFFFF_FFF0 || rounded >= d);
        assert!(rounded % 16 == 0);
        assert!(rounded as u64 <= (d as u64 + 15));
        let kib = get_memory_usage(d);
        // estimate covers the dictionary buffer plus the 64 KiB chunk buffer
        assert!(kib as u64 * 1024 + 1023 >= rounded as u64 + 65536);
        assert!(kib as u64 <= rounded as u64 / 1024 + 40 + 64);
    }

    /// contract stub for LZMA2Reader::new used by container-level harnesses that never drive the payload reader:
    /// storage zeroed except `inner`; must be forgotten, never dropped.
    pub(crate) fn lzma2_reader_new_zeroed<R: Read>(inner: R, _dict_size: u32, _preset: Option<&[u8]>) -> LZMA2Reader<R> {
        unsafe {
            let mut m = core::mem::MaybeUninit::<LZMA2Reader<R>>::zeroed();
            let p = m.as_mut_ptr();
            core::ptr::addr_of_mut!((*p).inner).write(inner);
            m.assume_init()
        }
    }

    // ---------------------------------------------------------------- C16.l2.read: the read loop over uncompressed chunks
    /// Stream: 0x01 (uncompressed, dictionary reset) size 3 | a b c | 0x02 (uncompressed) size 1 | d | 0x00 | trailing bytes.
    /// For a first read of K bytes and then reads of 4: the reader returns a b c d in order, reports the end after the
    /// terminator, has then consumed EXACTLY the 12 bytes of the LZMA2 stream (nothing of what follows), and later reads
    /// return Ok(0) without touching the source. (LZMA chunks need the decoder: by contract elsewhere.)
    fn l2_read_uncompressed<const K: usize>() {
        let p: [u8; 4] = vk::any();
        let t: [u8; 2] = vk::any();
        let stream: [u8; 14] = [0x01, 0x00, 0x02, p[0], p[1], p[2], 0x02, 0x00, 0x00, p[3], 0x00, 0x99, t[0], t[1]];
        let mut r = core::mem::ManuallyDrop::new(LZMA2Reader::new(vk::Src::<14>::new(stream, 14), 4096, None));
        let mut out = [0u8; 8];
        let mut got = 0usize;
        match r.read(&mut out[..K]) { Ok(n) => { assert!(n >= 1 && n <= K); got += n; } Err(_) => assert!(false) }
        let mut rounds = 0;
        while rounds < 4 && got < 4 {
            match r.read(&mut out[got..got + 4]) { Ok(n) => { assert!(n >= 1, "end of data reported before the terminator"); got += n; } Err(_) => assert!(false) }
            rounds += 1;
        }
        assert!(got == 4 && out[0] == p[0] && out[1] == p[1] && out[2] == p[2] && out[3] == p[3]);
        assert!(matches!(r.read(&mut out[4..8]), Ok(0)));
        assert!(r.end_reached && r.inner.pos == 11, "the reader must stop exactly after the 0x00 terminator");
        assert!(matches!(r.read(&mut out[4..8]), Ok(0)) && r.inner.pos == 11);
        assert!(matches!(r.read(&mut out[..0]), Ok(0)));
    }
    #[kani::proof]
    #[kani::unwind(8)]
    //@ERR
    fn c16_l2_read_uncompressed_k1() { l2_read_uncompressed::<1>(); }
    #[kani::proof]
    #[kani::unwind(8)]
    //@ERR
    fn c16_l2_read_uncompressed_k3() { l2_read_uncompressed::<3>(); }
    #[kani::proof]
    #[kani::unwind(8)]
    //@ERR
    fn c16_l2_read_uncompressed_k4() { l2_read_uncompressed::<4>(); }

    /// C04.lzma.struct / C05: a structural error (first chunk 0x02 = no dictionary reset at the start of the stream) or a
    /// truncated chunk is returned with its kind and STAYS returned: later reads fail with the same kind, never yield data.
    fn l2_error_is_sticky<const TRUNC: bool>() {
        let p: [u8; 2] = vk::any();
        let stream: [u8; 5] = if TRUNC { [0x01, 0x00, 0x02, p[0], p[1]] } else { [0x02, 0x00, 0x01, p[0], p[1]] };
        let mut r = core::mem::ManuallyDrop::new(LZMA2Reader::new(vk::Src::<5>::new(stream, 5), 4096, None));
        let mut out = [0u8; 4];
        let r1 = r.read(&mut out);
        assert!(r1.is_err(), "damaged stream accepted");
        if let Err(e) = &r1 { assert!(vk::kind_of(e) == if TRUNC { vk::Kind::Eof } else { vk::Kind::InvalidInput }); }
        let r2 = r.read(&mut out);
        assert!(r2.is_err(), "data returned after an error");
        if let Err(e) = &r2 { assert!(vk::kind_of(e) == if TRUNC { vk::Kind::Eof } else { vk::Kind::InvalidInput }); }
    }
    #[kani::proof]
    #[kani::unwind(8)]
    //@ERR
    fn c04_l2_error_is_sticky_structural() { l2_error_is_sticky::<false>(); }
    #[kani::proof]
    #[kani::unwind(8)]
    //@ERR
    fn c04_l2_error_is_sticky_truncated() { l2_error_is_sticky::<true>(); }

    // ---------------------------------------------------------------- C05.exact: fixed-width field helpers of src/lib.rs
    /// ByteReader over a source with short reads / Interrupted / a hard error / early EOF: a value is returned only if ALL
    /// its bytes were delivered (little / big endian as named); EOF before that => Err(EOF) - never a value made of
    /// missing bytes (a zero byte at EOF would read as the LZMA2 end marker); the source's error kind is returned.
    fn byte_reader_fields<const WHICH: u8>() {
        use crate::ByteReader;
        let d: [u8; 8] = vk::any();
        let avail: usize = vk::any();
        vk::assume(avail <= 8);
        let which: u8 = WHICH;
        let mut src = vk::IoAny::<8>::new(d, avail);
        src.short = true;
        src.interrupts_left = 1;
        src.fail_at = vk::any();
        let (need, got): (usize, crate::Result<u64>) = match which {
            0 => (1, src.read_u8().map(|v| v as u64)),
            1 => (2, src.read_u16().map(|v| v as u64)),
            2 => (2, src.read_u16_be().map(|v| v as u64)),
            3 => (4, src.read_u32().map(|v| v as u64)),
            4 => (4, src.read_u32_be().map(|v| v as u64)),
            _ => (8, src.read_u64()),
        };
        match got {
            Ok(v) => {
                assert!(avail >= need && src.pos == need, "value returned without all of its bytes");
                let want = match which {
                    0 => d[0] as u64,
                    1 => u16::from_le_bytes([d[0], d[1]]) as u64,
                    2 => u16::from_be_bytes([d[0], d[1]]) as u64,
                    3 => u32::from_le_bytes([d[0], d[1], d[2], d[3]]) as u64,
                    4 => u32::from_be_bytes([d[0], d[1], d[2], d[3]]) as u64,
                    _ => u64::from_le_bytes(d),
                };
                assert!(v == want);
            }
            Err(e) => match vk::kind_of(&e) {
                vk::Kind::Eof => assert!(avail < need),
                vk::Kind::Unknown => assert!(src.calls > src.fail_at),
                _ => assert!(false, "error kind the source never produced (Interrupted must be retried)"),
            },
        }
        assert!(src.pos <= need);
    }
    #[kani::proof]
    #[kani::unwind(12)]
    //@ERR
    fn c05_byte_reader_u8() { byte_reader_fields::<0>(); }
    #[kani::proof]
    #[kani::unwind(12)]
    //@ERR
    fn c05_byte_reader_u16() { byte_reader_fields::<1>(); }
    #[kani::proof]
    #[kani::unwind(12)]
    //@ERR
    fn c05_byte_reader_u16_be() { byte_reader_fields::<2>(); }
    #[kani::proof]
    #[kani::unwind(12)]
    //@ERR
    fn c05_byte_reader_u32() { byte_reader_fields::<3>(); }
    #[kani::proof]
    #[kani::unwind(12)]
    //@ERR
    fn c05_byte_reader_u32_be() { byte_reader_fields::<4>(); }
    #[kani::proof]
    #[kani::unwind(12)]
    //@ERR
    fn c05_byte_reader_u64() { byte_reader_fields::<5>(); }
    /// ByteWriter: exactly the value's bytes in the named order, through write_all
    #[kani::proof]
    #[kani::unwind(12)]
    //@ERR
    fn c05_byte_writer_fields() {
        use crate::ByteWriter;
        let v: u64 = vk::any();
        let mut s = vk::SinkAny::<16>::new();
        s.short = true;
        assert!(s.write_u8(v as u8).is_ok() && s.write_u16(v as u16).is_ok() && s.write_u32(v as u32).is_ok() && s.write_u64(v).is_ok());
        assert!(s.len == 15);
        let b = v.to_le_bytes();
        assert!(s.buf[0] == b[0] && s.buf[1] == b[0] && s.buf[2] == b[1] && s.buf[3] == b[0] && s.buf[6] == b[3] && s.buf[7] == b[0] && s.buf[14] == b[7]);
    }

    /// C05 / C16: an LZMA2 stream that ends (EOF) where the next chunk's control byte is due - the 0x00 terminator is
    /// missing - is an error (EOF), after the complete chunks were delivered; it is never taken for a clean end.
    #[kani::proof]
    #[kani::unwind(8)]
    //@ERR
    fn c05_l2_missing_terminator() {
        let p: u8 = vk::any();
        let stream: [u8; 4] = [0x01, 0x00, 0x00, p];
        let mut r = core::mem::ManuallyDrop::new(LZMA2Reader::new(vk::Src::<4>::new(stream, 4), 4096, None));
        let mut out = [0u8; 1];
        let r1 = r.read(&mut out);
        assert!(matches!(r1, Ok(1)) && out[0] == p);
        let r2 = r.read(&mut out);
        assert!(r2.is_err(), "truncated LZMA2 stream (no end marker) reported as a clean end");
        if let Err(e) = &r2 { assert!(vk::kind_of(e) == vk::Kind::Eof); }
    }
