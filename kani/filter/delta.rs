    // ===== src/filter/delta.rs =====

    fn any_delta(distance: usize) -> Delta {
        let history: [u8; MAX_DISTANCE] = vk::any();
        let pos: u8 = vk::any();
        Delta { distance, history, pos }
    }
    /// equality of two filter states; the 256 history bytes are compared at one arbitrary index (= at every index)
    fn same(a: &Delta, b: &Delta) -> bool {
        let k: usize = vk::any();
        vk::assume(k < MAX_DISTANCE);
        a.distance == b.distance && a.pos == b.pos && a.history[k] == b.history[k]
    }

    /// C11.delta (coupling invariant, inductive step): encoder and decoder in equal states (any history, any ring
    /// position, any distance value) stay in equal states and decode(encode(x)) = x, for every byte x.
    #[kani::proof]
    #[kani::unwind(4)]
    fn c11_delta_step_inverse() {
        let d: usize = vk::any();
        let mut e = any_delta(d);
        let mut dd = Delta { distance: e.distance, history: e.history, pos: e.pos };
        let x: [u8; 2] = vk::any();
        let mut b = x;
        e.encode(&mut b);
        dd.decode(&mut b);
        assert!(b == x);
        assert!(same(&e, &dd));
    }

    /// C11.delta (reference definition): out[k] = in[k] - in[k-d] where bytes before this call come from the history ring
    /// (zero before the start of the stream), for every distance 1..=256.
    #[kani::proof]
    #[kani::unwind(5)]
    fn c11_delta_reference() {
        let d: usize = vk::any();
        vk::assume(d >= 1 && d <= 256);
        let mut e = any_delta(d);
        let h0 = e.history;
        let p0 = e.pos as usize;
        let x: [u8; 3] = vk::any();
        let mut b = x;
        e.encode(&mut b);
        let mut k = 0;
        while k < 3 {
            let prev = if d <= k { x[k - d] } else { h0[(p0 + d - k) & 255] };
            assert!(b[k] == x[k].wrapping_sub(prev));
            k += 1;
        }
        assert!(e.pos == (p0 as u8).wrapping_sub(3));
        assert!(e.distance == d);
    }

    /// C07.delta: processing [x,y] in one call equals processing [x] then [y] (output and state), both directions;
    /// an empty slice changes nothing.
    #[kani::proof]
    #[kani::unwind(4)]
    fn c07_delta_split() {
        let d: usize = vk::any();
        let mut a = any_delta(d);
        let mut b = Delta { distance: a.distance, history: a.history, pos: a.pos };
        let x: [u8; 2] = vk::any();
        let enc: bool = vk::any();
        let mut one = x;
        let mut two = x;
        if enc {
            a.encode(&mut one);
            b.encode(&mut two[..1]);
            b.encode(&mut two[..0]);
            b.encode(&mut two[1..]);
        } else {
            a.decode(&mut one);
            b.decode(&mut two[..1]);
            b.decode(&mut two[..0]);
            b.decode(&mut two[1..]);
        }
        assert!(one == two);
        assert!(same(&a, &b));
    }

    /// C11.start: reader and writer constructors start from the same state: zero history, ring position 0, same distance.
    #[kani::proof]
    #[kani::unwind(4)]
    fn c11_delta_new() {
        let d: usize = vk::any();
        let r = DeltaReader::new(vk::Src::<1>::new([0], 0), d);
        let w = DeltaWriter::new(vk::Sink::<1>::new(), d);
        assert!(r.delta.distance == d && w.delta.distance == d);
        assert!(r.delta.pos == 0 && w.delta.pos == 0);
        let k: usize = vk::any();
        vk::assume(k < MAX_DISTANCE);
        assert!(r.delta.history[k] == 0 && w.delta.history[k] == 0);
    }

    /// C05.filter.r / C07.zero: DeltaReader::read over io_any: returns what the source returned; exactly those bytes are
    /// decoded (state advances by n); a source error is returned with its kind and leaves the state untouched;
    /// a zero-length read changes nothing.
    #[kani::proof]
    #[kani::unwind(6)]
    //@ERR
    fn c05_delta_reader() {
        let d: usize = vk::any();
        let data: [u8; 4] = vk::any();
        let mut src = vk::IoAny::<4>::new(data, 4);
        src.short = true;
        src.interrupts_left = 1;
        src.fail_at = vk::any();
        let mut r = DeltaReader::new(src, d);
        r.delta.history = vk::any();
        r.delta.pos = vk::any();
        let mut reference = Delta { distance: d, history: r.delta.history, pos: r.delta.pos };
        let mut out = [0u8; 4];
        assert!(matches!(r.read(&mut out[..0]), Ok(0)) || r.inner.calls == 1);
        let before_calls = r.inner.calls;
        if before_calls == 0 {
            let want: usize = vk::any();
            vk::assume(want >= 1 && want <= 4);
            match r.read(&mut out[..want]) {
                Ok(n) => {
                    assert!(n >= 1 && n <= want && r.inner.pos == n);
                    let mut exp = data;
                    reference.decode(&mut exp[..n]);
                    let mut i = 0;
                    while i < 4 { if i < n { assert!(out[i] == exp[i]); } i += 1; }
                    assert!(same(&r.delta, &reference));
                }
                Err(e) => {
                    assert!(vk::kind_of(&e) == vk::Kind::Interrupted || vk::kind_of(&e) == vk::Kind::Unknown);
                    assert!(same(&r.delta, &reference));
                    assert!(r.inner.pos == 0);
                }
            }
        }
    }

    /// C05.filter.w: DeltaWriter::write over a sink that may accept only part of each write: Ok(n) means the caller's
    /// first n bytes - and only those - are committed: the sink holds their encoding and the filter state is the state
    /// after exactly n bytes (so that the caller's retry of the rest continues correctly); a sink error is returned.
    #[kani::proof]
    #[kani::unwind(4)]
    //@ERR
    fn c05_delta_writer_short() {
        let d: usize = vk::any();
        let data: [u8; 2] = vk::any();
        let mut sink = vk::SinkAny::<4>::new();
        sink.short = true;
        let mut w = DeltaWriter::new(sink, d);
        w.delta.history = vk::any();
        w.delta.pos = vk::any();
        let mut reference = Delta { distance: d, history: w.delta.history, pos: w.delta.pos };
        match w.write(&data) {
            Ok(n) => {
                assert!(n >= 1 && n <= 2);
                let mut exp = data;
                reference.encode(&mut exp[..n]);
                assert!(w.inner.len == n);
                assert!(w.inner.buf[0] == exp[0]);
                if n == 2 { assert!(w.inner.buf[1] == exp[1]); }
                assert!(same(&w.delta, &reference));
            }
            Err(_) => assert!(false),
        }
    }
    #[kani::proof]
    #[kani::unwind(6)]
    //@ERR
    fn c05_delta_writer_error() {
        let data: [u8; 3] = vk::any();
        let mut sink = vk::SinkAny::<8>::new();
        sink.fail_at = 0;
        let mut w = DeltaWriter::new(sink, 1);
        assert!(matches!(w.write(&data), Err(e) if vk::kind_of(&e) == vk::Kind::Unknown));
        let mut w2 = DeltaWriter::new(vk::SinkAny::<8>::new(), 1);
        assert!(matches!(w2.write(&data[..0]), Ok(0)));
        assert!(w2.delta.pos == 0);
    }
