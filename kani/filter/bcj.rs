    // ===== src/filter/bcj.rs : shared contract of the eight *_code filters =====

    /// C11.group / C06.bcj / C07.bcj.code for one filter on an N-byte buffer of arbitrary bytes at an arbitrary
    /// (aligned) stream position:
    ///  * no panic (index, arithmetic overflow) for any position below 2^62,
    ///  * encoder and decoder convert the same prefix r <= N, advance `pos` by exactly r, leave bytes >= r untouched,
    ///  * decode(encode(x)) = x on the converted prefix,
    ///  * r is independent of the direction and r <= N, r >= N - tail (only a short tail stays unconverted).
    pub(crate) fn bcj_group_roundtrip<const N: usize>(mk: fn(usize, bool) -> BCJFilter, align: usize, bias: usize, tail: usize) {
        let orig: [u8; N] = vk::any();
        let start: usize = vk::any();
        vk::assume(start < (1usize << 62) && start % align == 0);
        let mut e = mk(start, true);
        let mut d = mk(start, false);
        assert!(e.pos == start + bias && d.pos == start + bias);
        assert!(e.is_encoder && !d.is_encoder);
        let mut buf = orig;
        let r1 = e.code(&mut buf);
        let enc = buf;
        let r2 = d.code(&mut buf);
        assert!(r1 == r2);
        assert!(r1 <= N && r1 + tail >= N);
        assert!(e.pos == start + bias + r1 && d.pos == e.pos);
        assert!(e.prev_mask == d.prev_mask);
        let mut i = 0;
        while i < N {
            assert!(buf[i] == orig[i]);
            if i >= r1 { assert!(enc[i] == orig[i]); }
            i += 1;
        }
        if N > tail { crate::vcover!(enc != orig); }
    }

    /// C07.bcj.code (call-splitting homomorphism of a *_code filter, the way BCJReader drives it): filtering an N-byte
    /// stream in one call equals filtering its first k bytes, then re-presenting the unconverted tail followed by the
    /// rest: same output bytes, same final position, same carried state (x86 `prev_mask`), in both directions.
    pub(crate) fn bcj_split_homomorphism<const N: usize>(mk: fn(usize, bool) -> BCJFilter, align: usize, k: usize, enc: bool) {
        let orig: [u8; N] = vk::any();
        // align == 1 (x86): the carried state does not depend on the position; a fixed start keeps the harness affordable
        let start: usize = if align == 1 { 0x1000 } else { vk::any() };
        vk::assume(start < (1usize << 40) && start % align == 0);
        let mut one = mk(start, enc);
        let mut a = orig;
        let r = one.code(&mut a);
        let mut two = mk(start, enc);
        let mut b = orig;
        let r1 = two.code(&mut b[..k]);
        assert!(r1 <= k);
        let r2 = two.code(&mut b[r1..]);
        assert!(r1 + r2 == r);
        assert!(one.pos == two.pos && one.prev_mask == two.prev_mask);
        let mut i = 0;
        while i < N { assert!(a[i] == b[i]); i += 1; }
    }

    // ---------------------------------------------------------------- BCJReader / BCJWriter state machines

    /// C07.bcj.reader / C05.filter.r / C06.bcjr: the bytes BCJReader yields do not depend on how the caller splits its
    /// reads: for a 10-byte source (2 ARM groups + 2 tail bytes) read as [a bytes][rest][EOF probe] the output equals the
    /// decoder filter applied once to the whole stream, the unconverted tail is passed through only at end of input,
    /// and after EOF every read returns Ok(0). The reader's own asserts never fire.
    fn bcj_reader_split(a: usize) {
        let data: [u8; 10] = vk::any();
        let start: usize = vk::any();
        vk::assume(start < (1usize << 40) && start % 4 == 0);
        // expected: filter over the whole stream at once
        let mut expected = data;
        let mut f = BCJFilter::new_arm(start, false);
        let conv = f.code(&mut expected);
        assert!(conv == 8);
        let mut r = BCJReader::new_arm(vk::Src::<10>::new(data, 10), start);
        let mut out = [0u8; 12];
        let mut got = 0usize;
        // first read of `a` bytes, then reads of the rest until EOF
        let n1 = match r.read(&mut out[..a]) { Ok(n) => n, Err(_) => { assert!(false); 0 } };
        assert!(n1 <= a && n1 >= 1);
        got += n1;
        let mut rounds = 0;
        while rounds < 3 && got < 10 {
            let n = match r.read(&mut out[got..12]) { Ok(n) => n, Err(_) => { assert!(false); 0 } };
            got += n;
            rounds += 1;
        }
        assert!(got == 10);
        let mut i = 0;
        while i < 10 { assert!(out[i] == expected[i]); i += 1; }
        assert!(matches!(r.read(&mut out[10..12]), Ok(0)));
        assert!(matches!(r.read(&mut out[..0]), Ok(0)));
    }
    #[kani::proof]
    #[kani::unwind(12)]
    //@ERR
    fn c07_bcj_reader_split_1() { bcj_reader_split(1); }
    #[kani::proof]
    #[kani::unwind(12)]
    //@ERR
    fn c07_bcj_reader_split_5() { bcj_reader_split(5); }
    #[kani::proof]
    #[kani::unwind(12)]
    //@ERR
    fn c07_bcj_reader_split_9() { bcj_reader_split(9); }

    /// C05.filter.r: with a source that delivers short reads and then fails at some call, BCJReader returns the source's
    /// error (kind preserved) and keeps returning an error afterwards; bytes handed out before the error are a prefix of
    /// the correct output.
    fn bcj_reader_fault_at(k: usize) {
        let data: [u8; 10] = vk::any();
        let mut expected = data;
        let mut f = BCJFilter::new_arm(0, false);
        f.code(&mut expected);
        let mut src = vk::IoAny::<10>::new(data, 10);
        src.fail_at = k;
        let mut r = BCJReader::new_arm(src, 0);
        let mut out = [0u8; 12];
        let mut got = 0usize;
        let mut failed = false;
        let mut rounds = 0;
        while rounds < 3 {
            match r.read(&mut out[got..12]) {
                Ok(n) => { assert!(!failed); got += n; }
                Err(e) => { assert!(vk::kind_of(&e) == vk::Kind::Unknown); failed = true; }
            }
            rounds += 1;
        }
        assert!(failed);
        assert!(got <= 10);
        let mut i = 0;
        while i < 10 { if i < got { assert!(out[i] == expected[i]); } i += 1; }
    }
    #[kani::proof]
    #[kani::unwind(12)]
    //@ERR
    #[kani::stub(crate::copy_error, crate::vk::err_copy)]
    fn c05_bcj_reader_fault_0() { bcj_reader_fault_at(0); }
    #[kani::proof]
    #[kani::unwind(12)]
    //@ERR
    #[kani::stub(crate::copy_error, crate::vk::err_copy)]
    fn c05_bcj_reader_fault_1() { bcj_reader_fault_at(1); }

    /// source that reports Interrupted at one chosen call and otherwise delivers everything it has
    struct IntrSrc { buf: [u8; 10], pos: usize, calls: usize, intr_at: usize }
    impl Read for IntrSrc {
        fn read(&mut self, out: &mut [u8]) -> crate::Result<usize> {
            let c = self.calls;
            self.calls += 1;
            if c == self.intr_at { return Err(vk::mk_err(vk::Kind::Interrupted)); }
            let n = 10 - self.pos;
            let mut i = 0;
            while i < n { out[i] = self.buf[self.pos + i]; i += 1; }
            self.pos += n;
            Ok(n)
        }
    }
    /// C05.filter.r (Interrupted): the source reports Interrupted once, at inner call `at`. Whatever the reader then
    /// returns to a caller that retries: the bytes of its successful reads, concatenated, are a prefix of the correctly
    /// filtered stream, and end of data (Ok(0)) is reported only when the whole stream was delivered - never success with
    /// bytes missing or shifted. (at = 1 is the call made after leftover filtered bytes were already copied to the caller.)
    fn bcj_reader_interrupted<const AT: usize>() {
        let data: [u8; 10] = vk::any();
        let mut expected = data;
        let mut f = BCJFilter::new_arm(0, false);
        f.code(&mut expected);
        let mut r = BCJReader::new_arm(IntrSrc { buf: data, pos: 0, calls: 0, intr_at: AT }, 0);
        // `have` = the caller's position in the decoded stream = bytes its successful reads returned so far.
        // The scenario (first read returns 3 bytes / the Interrupted error comes back at the inner call it was injected
        // at) is ASSUMED read by read - other legal shapes (a shorter first read, ...) are not examined, and the final
        // cover turns an unsatisfiable scenario into UNDECIDED, never into an alarm. What is asserted is only the property.
        let mut out = [0u8; 3];
        let mut have = 0usize;
        let r1 = r.read(&mut out);
        if AT == 0 {
            vk::assume(r1.is_err());
        } else {
            vk::assume(matches!(r1, Ok(3)));
            assert!(out[0] == expected[0] && out[1] == expected[1] && out[2] == expected[2]);
            have = 3;
        }
        let mut out2 = [0u8; 9];
        let r2 = r.read(&mut out2);
        if AT == 1 {
            vk::assume(r2.is_err());
            if let Err(e) = &r2 { assert!(vk::kind_of(e) == vk::Kind::Interrupted); }
        } else {
            match r2 { Ok(n) => { check_at(&out2, n, have, &expected); have += n; } Err(e) => { assert!(vk::kind_of(&e) == vk::Kind::Interrupted); } }
        }
        // the retry a caller makes after Interrupted (AT = 2: the read after the end of the stream)
        let mut out3 = [0u8; 9];
        match r.read(&mut out3) {
            Ok(n) => { check_at(&out3, n, have, &expected); }
            Err(e) => { assert!(vk::kind_of(&e) == vk::Kind::Interrupted); }
        }
        crate::vcover!(true);
    }
    /// a successful read of n bytes at stream position `have`: n = 0 only at the end of the stream, bytes = the filtered stream
    fn check_at(buf: &[u8; 9], n: usize, have: usize, expected: &[u8; 10]) {
        assert!(n <= 9 && have + n <= 10, "more bytes than the stream holds");
        if n == 0 { assert!(have == 10, "end of data reported with bytes missing"); }
        let mut i = 0;
        while i < 9 { if i < n { assert!(buf[i] == expected[have + i], "bytes delivered after an interrupted read differ from the filtered stream"); } i += 1; }
    }
    #[kani::proof]
    #[kani::unwind(12)]
    //@ERR
    #[kani::stub(crate::copy_error, crate::vk::err_copy)]
    fn c05_bcj_reader_interrupted_0() {
        // Interrupted at the very first inner call: nothing was handed out yet (have = 0)
        let data: [u8; 10] = vk::any();
        let mut expected = data;
        let mut f = BCJFilter::new_arm(0, false);
        f.code(&mut expected);
        let mut r = BCJReader::new_arm(IntrSrc { buf: data, pos: 0, calls: 0, intr_at: 0 }, 0);
        let mut out = [0u8; 3];
        let r1 = r.read(&mut out);
        vk::assume(r1.is_err());
        if let Err(e) = &r1 { assert!(vk::kind_of(e) == vk::Kind::Interrupted); }
        let mut out2 = [0u8; 9];
        match r.read(&mut out2) { Ok(n) => { check_at(&out2, n, 0, &expected); } Err(e) => { assert!(vk::kind_of(&e) == vk::Kind::Interrupted); } }
        crate::vcover!(true);
    }
    #[kani::proof]
    #[kani::unwind(12)]
    //@ERR
    #[kani::stub(crate::copy_error, crate::vk::err_copy)]
    fn c05_bcj_reader_interrupted_1() {
        // first read returns 3 bytes; the second read copies the 5 leftover filtered bytes into the caller's buffer and
        // then meets Interrupted at the inner call; the caller retries: (have = 3)
        let data: [u8; 10] = vk::any();
        let mut expected = data;
        let mut f = BCJFilter::new_arm(0, false);
        f.code(&mut expected);
        let mut r = BCJReader::new_arm(IntrSrc { buf: data, pos: 0, calls: 0, intr_at: 1 }, 0);
        let mut out = [0u8; 3];
        let r1 = r.read(&mut out);
        vk::assume(matches!(r1, Ok(3)));
        assert!(out[0] == expected[0] && out[1] == expected[1] && out[2] == expected[2]);
        let mut out2 = [0u8; 9];
        let r2 = r.read(&mut out2);
        vk::assume(r2.is_err());
        if let Err(e) = &r2 { assert!(vk::kind_of(e) == vk::Kind::Interrupted); }
        let mut out3 = [0u8; 9];
        match r.read(&mut out3) { Ok(n) => { check_at(&out3, n, 3, &expected); } Err(e) => { assert!(vk::kind_of(&e) == vk::Kind::Interrupted); } }
        crate::vcover!(true);
    }
    #[kani::proof]
    #[kani::unwind(12)]
    //@ERR
    #[kani::stub(crate::copy_error, crate::vk::err_copy)]
    fn c05_bcj_reader_interrupted_2() { bcj_reader_interrupted::<2>(); }

    /// C07.bcj.writer (single write): the sink receives the encoder filter applied to the buffer, the unconverted tail raw.
    #[kani::proof]
    #[kani::unwind(12)]
    //@ERR
    fn c07_bcj_writer_single() {
        let data: [u8; 10] = vk::any();
        let start: usize = vk::any();
        vk::assume(start < (1usize << 40) && start % 4 == 0);
        let mut expected = data;
        let mut f = BCJFilter::new_arm(start, true);
        f.code(&mut expected);
        let mut w = BCJWriter::new_arm(vk::Sink::<12>::new(), start);
        assert!(matches!(w.write(&data), Ok(10)));
        assert!(w.inner.len == 10);
        let mut i = 0;
        while i < 10 { assert!(w.inner.buf[i] == expected[i]); i += 1; }
    }

    /// C07.bcj.writer (two writes) — KNOWN FINDING D17: the tail the filter could not convert in the first write is
    /// emitted raw and the filter position is not advanced over it, so a++b is not encoded like one write of a++b.
    #[kani::proof]
    #[kani::unwind(12)]
    //@ERR
    fn kf_c07_bcj_writer_two_writes() {
        let data: [u8; 10] = vk::any();
        let mut expected = data;
        let mut f = BCJFilter::new_arm(0, true);
        f.code(&mut expected);
        let mut w = BCJWriter::new_arm(vk::Sink::<12>::new(), 0);
        assert!(matches!(w.write(&data[..6]), Ok(6)));
        assert!(matches!(w.write(&data[6..]), Ok(4)));
        assert!(w.inner.len == 10);
        let mut i = 0;
        while i < 10 { assert!(w.inner.buf[i] == expected[i], "two writes differ from one write"); i += 1; }
    }
    /// complement of the known finding: writes cut at group boundaries (no unconverted tail left behind) do compose.
    #[kani::proof]
    #[kani::unwind(14)]
    //@ERR
    fn c07_bcj_writer_two_aligned_writes() {
        let data: [u8; 12] = vk::any();
        let mut expected = data;
        let mut f = BCJFilter::new_arm(0, true);
        f.code(&mut expected);
        let mut w = BCJWriter::new_arm(vk::Sink::<12>::new(), 0);
        assert!(matches!(w.write(&data[..4]), Ok(4)));
        assert!(matches!(w.write(&data[..0]), Ok(0)));
        assert!(matches!(w.write(&data[4..]), Ok(8)));
        let mut i = 0;
        while i < 12 { assert!(w.inner.buf[i] == expected[i]); i += 1; }
    }
