    // ===== src/filter/bcj.rs : shared contract of the eight *_code filters =====

    /// C11.group / C06.bcj / C07.bcj.code for one filter on an N-byte buffer of arbitrary bytes at an arbitrary
    /// (aligned) stream position:
    ///  * no panic (index, arithmetic overflow) for any position below 2^62,
    ///  * encoder and decoder convert the same prefix r <= N, advance `pos` by exactly r, leave bytes >= r untouched,
    ///  * decode(encode(x)) = x on the converted prefix,
    ///  * r is independent of the direction and r <= N, r >= N - tail (only a short tail stays unconverted).
    pub(crate) fn bcj_group_roundtrip<const N: usize>(mk: fn(usize, bool) -> BCJFilter, align: usize, bias: usize, tail: usize) {
        let orig: [u8; N] = vk::any();
        let start: usize = vk::any();
        vk::assume(start < (1usize << 62) && start % align == 0);
        let mut e = mk(start, true);
        let mut d = mk(start, false);
        assert!(e.pos == start + bias && d.pos == start + bias);
        assert!(e.is_encoder && !d.is_encoder);
        let mut buf = orig;
        let r1 = e.code(&mut buf);
        let enc = buf;
        let r2 = d.code(&mut buf);
        assert!(r1 == r2);
        assert!(r1 <= N && r1 + tail >= N);
        assert!(e.pos == start + bias + r1 && d.pos == e.pos);
        assert!(e.prev_mask == d.prev_mask);
        let mut i = 0;
        while i < N {
            assert!(buf[i] == orig[i]);
            if i >= r1 { assert!(enc[i] == orig[i]); }
            i += 1;
        }
        if N > tail { crate::vcover!(enc != orig); }
    }
