    // ===== src/filter/bcj/riscv.rs =====
    use crate::filter::bcj::verif_kani::{bcj_group_roundtrip, bcj_split_homomorphism};
    #[kani::proof]
    #[kani::unwind(12)]
    fn c11_bcj_riscv_group() { bcj_group_roundtrip::<8>(BCJFilter::new_riscv, 2, 0, 7); }
    #[kani::proof]
    #[kani::unwind(14)]
    fn c11_bcj_riscv_two() { bcj_group_roundtrip::<12>(BCJFilter::new_riscv, 2, 0, 7); }
    #[kani::proof]
    #[kani::unwind(18)]
    fn c07_bcj_riscv_split_k9_enc() { bcj_split_homomorphism::<14>(BCJFilter::new_riscv, 2, 9, true); }
    #[kani::proof]
    #[kani::unwind(18)]
    fn c07_bcj_riscv_split_k9_dec() { bcj_split_homomorphism::<14>(BCJFilter::new_riscv, 2, 9, false); }
    #[kani::proof]
    #[kani::unwind(18)]
    fn c07_bcj_riscv_split_k10_enc() { bcj_split_homomorphism::<14>(BCJFilter::new_riscv, 2, 10, true); }
    #[kani::proof]
    #[kani::unwind(18)]
    fn c07_bcj_riscv_split_k10_dec() { bcj_split_homomorphism::<14>(BCJFilter::new_riscv, 2, 10, false); }
