    // ===== src/filter/bcj/riscv.rs =====
    use crate::filter::bcj::verif_kani::bcj_group_roundtrip;
    #[kani::proof]
    #[kani::unwind(12)]
    fn c11_bcj_riscv_group() { bcj_group_roundtrip::<8>(BCJFilter::new_riscv, 2, 0, 7); }
    #[kani::proof]
    #[kani::unwind(14)]
    fn c11_bcj_riscv_two() { bcj_group_roundtrip::<12>(BCJFilter::new_riscv, 2, 0, 7); }
