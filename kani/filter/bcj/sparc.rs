    // ===== src/filter/bcj/sparc.rs =====
    use crate::filter::bcj::verif_kani::bcj_group_roundtrip;
    #[kani::proof]
    #[kani::unwind(10)]
    fn c11_bcj_sparc_group() { bcj_group_roundtrip::<8>(BCJFilter::new_sparc, 4, 0, 3); }
    #[kani::proof]
    #[kani::unwind(10)]
    fn c11_bcj_sparc_short() { bcj_group_roundtrip::<6>(BCJFilter::new_sparc, 4, 0, 3); }
