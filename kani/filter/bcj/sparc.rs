    // ===== src/filter/bcj/sparc.rs =====
    use crate::filter::bcj::verif_kani::{bcj_group_roundtrip, bcj_split_homomorphism};
    #[kani::proof]
    #[kani::unwind(10)]
    fn c11_bcj_sparc_group() { bcj_group_roundtrip::<8>(BCJFilter::new_sparc, 4, 0, 3); }
    #[kani::proof]
    #[kani::unwind(10)]
    fn c11_bcj_sparc_short() { bcj_group_roundtrip::<6>(BCJFilter::new_sparc, 4, 0, 3); }
    #[kani::proof]
    #[kani::unwind(14)]
    fn c07_bcj_sparc_split_k7_enc() { bcj_split_homomorphism::<10>(BCJFilter::new_sparc, 4, 7, true); }
    #[kani::proof]
    #[kani::unwind(14)]
    fn c07_bcj_sparc_split_k7_dec() { bcj_split_homomorphism::<10>(BCJFilter::new_sparc, 4, 7, false); }
