    // ===== src/filter/bcj/x86.rs =====
    use crate::filter::bcj::verif_kani::{bcj_group_roundtrip, bcj_split_homomorphism};
    #[kani::proof]
    #[kani::unwind(14)]
    fn c11_bcj_x86_group() { bcj_group_roundtrip::<10>(BCJFilter::new_x86, 1, 5, 4); }
    #[kani::proof]
    #[kani::unwind(14)]
    fn c11_bcj_x86_short() { bcj_group_roundtrip::<6>(BCJFilter::new_x86, 1, 5, 4); bcj_group_roundtrip::<4>(BCJFilter::new_x86, 1, 5, 4); }
    #[kani::proof]
    #[kani::unwind(16)]
    fn c07_bcj_x86_split_k5_enc() { bcj_split_homomorphism::<9>(BCJFilter::new_x86, 1, 5, true); }
    #[kani::proof]
    #[kani::unwind(16)]
    fn c07_bcj_x86_split_k5_dec() { bcj_split_homomorphism::<9>(BCJFilter::new_x86, 1, 5, false); }
    #[kani::proof]
    #[kani::unwind(16)]
    fn c07_bcj_x86_split_k6_enc() { bcj_split_homomorphism::<9>(BCJFilter::new_x86, 1, 6, true); }
    #[kani::proof]
    #[kani::unwind(16)]
    fn c07_bcj_x86_split_k6_dec() { bcj_split_homomorphism::<9>(BCJFilter::new_x86, 1, 6, false); }
    #[kani::proof]
    #[kani::unwind(16)]
    fn c07_bcj_x86_split_k7_enc() { bcj_split_homomorphism::<9>(BCJFilter::new_x86, 1, 7, true); }
    #[kani::proof]
    #[kani::unwind(16)]
    fn c07_bcj_x86_split_k7_dec() { bcj_split_homomorphism::<9>(BCJFilter::new_x86, 1, 7, false); }
    #[kani::proof]
    #[kani::unwind(16)]
    fn c07_bcj_x86_split_k8_enc() { bcj_split_homomorphism::<9>(BCJFilter::new_x86, 1, 8, true); }
    #[kani::proof]
    #[kani::unwind(16)]
    fn c07_bcj_x86_split_k8_dec() { bcj_split_homomorphism::<9>(BCJFilter::new_x86, 1, 8, false); }
    #[kani::proof]
    #[kani::unwind(16)]
    fn c07_bcj_x86_split_k9_enc() { bcj_split_homomorphism::<9>(BCJFilter::new_x86, 1, 9, true); }
    #[kani::proof]
    #[kani::unwind(16)]
    fn c07_bcj_x86_split_k9_dec() { bcj_split_homomorphism::<9>(BCJFilter::new_x86, 1, 9, false); }
