    // ===== src/filter/bcj/x86.rs =====
    use crate::filter::bcj::verif_kani::bcj_group_roundtrip;
    #[kani::proof]
    #[kani::unwind(14)]
    fn c11_bcj_x86_group() { bcj_group_roundtrip::<10>(BCJFilter::new_x86, 1, 5, 4); }
    #[kani::proof]
    #[kani::unwind(14)]
    fn c11_bcj_x86_short() { bcj_group_roundtrip::<6>(BCJFilter::new_x86, 1, 5, 4); bcj_group_roundtrip::<4>(BCJFilter::new_x86, 1, 5, 4); }
