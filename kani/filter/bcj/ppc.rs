    // ===== src/filter/bcj/ppc.rs =====
    use crate::filter::bcj::verif_kani::{bcj_group_roundtrip, bcj_split_homomorphism};
    #[kani::proof]
    #[kani::unwind(10)]
    fn c11_bcj_ppc_group() { bcj_group_roundtrip::<8>(BCJFilter::new_power_pc, 4, 0, 3); }
    #[kani::proof]
    #[kani::unwind(10)]
    fn c11_bcj_ppc_short() { bcj_group_roundtrip::<5>(BCJFilter::new_power_pc, 4, 0, 3); }
    #[kani::proof]
    #[kani::unwind(14)]
    fn c07_bcj_ppc_split_k6_enc() { bcj_split_homomorphism::<10>(BCJFilter::new_power_pc, 4, 6, true); }
    #[kani::proof]
    #[kani::unwind(14)]
    fn c07_bcj_ppc_split_k6_dec() { bcj_split_homomorphism::<10>(BCJFilter::new_power_pc, 4, 6, false); }
