    // ===== src/filter/bcj/arm.rs =====
    use crate::filter::bcj::verif_kani::{bcj_group_roundtrip, bcj_split_homomorphism};
    #[kani::proof]
    #[kani::unwind(10)]
    fn c11_bcj_arm_group() { bcj_group_roundtrip::<8>(BCJFilter::new_arm, 4, 8, 3); }
    #[kani::proof]
    #[kani::unwind(10)]
    fn c11_bcj_arm_short() { bcj_group_roundtrip::<7>(BCJFilter::new_arm, 4, 8, 3); bcj_group_roundtrip::<3>(BCJFilter::new_arm, 4, 8, 3); }
    #[kani::proof]
    #[kani::unwind(10)]
    fn c11_bcj_thumb_group() { bcj_group_roundtrip::<8>(BCJFilter::new_arm_thumb, 2, 4, 3); }
    #[kani::proof]
    #[kani::unwind(10)]
    fn c11_bcj_thumb_short() { bcj_group_roundtrip::<7>(BCJFilter::new_arm_thumb, 2, 4, 3); bcj_group_roundtrip::<3>(BCJFilter::new_arm_thumb, 2, 4, 3); }
    #[kani::proof]
    #[kani::unwind(10)]
    fn c11_bcj_arm64_group() { bcj_group_roundtrip::<8>(BCJFilter::new_arm64, 4, 0, 3); }
    #[kani::proof]
    #[kani::unwind(10)]
    fn c11_bcj_arm64_short() { bcj_group_roundtrip::<6>(BCJFilter::new_arm64, 4, 0, 3); }
    #[kani::proof]
    #[kani::unwind(14)]
    fn c07_bcj_arm_split_k5_enc() { bcj_split_homomorphism::<10>(BCJFilter::new_arm, 4, 5, true); }
    #[kani::proof]
    #[kani::unwind(14)]
    fn c07_bcj_arm_split_k5_dec() { bcj_split_homomorphism::<10>(BCJFilter::new_arm, 4, 5, false); }
    #[kani::proof]
    #[kani::unwind(14)]
    fn c07_bcj_arm_split_k6_enc() { bcj_split_homomorphism::<10>(BCJFilter::new_arm, 4, 6, true); }
    #[kani::proof]
    #[kani::unwind(14)]
    fn c07_bcj_arm_split_k6_dec() { bcj_split_homomorphism::<10>(BCJFilter::new_arm, 4, 6, false); }
    #[kani::proof]
    #[kani::unwind(14)]
    fn c07_bcj_thumb_split_k5_enc() { bcj_split_homomorphism::<10>(BCJFilter::new_arm_thumb, 2, 5, true); }
    #[kani::proof]
    #[kani::unwind(14)]
    fn c07_bcj_thumb_split_k5_dec() { bcj_split_homomorphism::<10>(BCJFilter::new_arm_thumb, 2, 5, false); }
    #[kani::proof]
    #[kani::unwind(14)]
    fn c07_bcj_thumb_split_k6_enc() { bcj_split_homomorphism::<10>(BCJFilter::new_arm_thumb, 2, 6, true); }
    #[kani::proof]
    #[kani::unwind(14)]
    fn c07_bcj_thumb_split_k6_dec() { bcj_split_homomorphism::<10>(BCJFilter::new_arm_thumb, 2, 6, false); }
    #[kani::proof]
    #[kani::unwind(14)]
    fn c07_bcj_arm64_split_k6_enc() { bcj_split_homomorphism::<10>(BCJFilter::new_arm64, 4, 6, true); }
    #[kani::proof]
    #[kani::unwind(14)]
    fn c07_bcj_arm64_split_k6_dec() { bcj_split_homomorphism::<10>(BCJFilter::new_arm64, 4, 6, false); }
