    // ===== src/filter/bcj/arm.rs =====
    use crate::filter::bcj::verif_kani::bcj_group_roundtrip;
    #[kani::proof]
    #[kani::unwind(10)]
    fn c11_bcj_arm_group() { bcj_group_roundtrip::<8>(BCJFilter::new_arm, 4, 8, 3); }
    #[kani::proof]
    #[kani::unwind(10)]
    fn c11_bcj_arm_short() { bcj_group_roundtrip::<7>(BCJFilter::new_arm, 4, 8, 3); bcj_group_roundtrip::<3>(BCJFilter::new_arm, 4, 8, 3); }
    #[kani::proof]
    #[kani::unwind(10)]
    fn c11_bcj_thumb_group() { bcj_group_roundtrip::<8>(BCJFilter::new_arm_thumb, 2, 4, 3); }
    #[kani::proof]
    #[kani::unwind(10)]
    fn c11_bcj_thumb_short() { bcj_group_roundtrip::<7>(BCJFilter::new_arm_thumb, 2, 4, 3); bcj_group_roundtrip::<3>(BCJFilter::new_arm_thumb, 2, 4, 3); }
    #[kani::proof]
    #[kani::unwind(10)]
    fn c11_bcj_arm64_group() { bcj_group_roundtrip::<8>(BCJFilter::new_arm64, 4, 0, 3); }
    #[kani::proof]
    #[kani::unwind(10)]
    fn c11_bcj_arm64_short() { bcj_group_roundtrip::<6>(BCJFilter::new_arm64, 4, 0, 3); }
