    // ===== src/filter/bcj/ia64.rs =====
    use crate::filter::bcj::verif_kani::{bcj_group_roundtrip, bcj_split_homomorphism};
    #[kani::proof]
    #[kani::unwind(20)]
    fn c11_bcj_ia64_group() { bcj_group_roundtrip::<16>(BCJFilter::new_ia64, 16, 0, 15); }
    #[kani::proof]
    #[kani::unwind(20)]
    fn c11_bcj_ia64_short() { bcj_group_roundtrip::<19>(BCJFilter::new_ia64, 16, 0, 15); }
    #[kani::proof]
    #[kani::unwind(40)]
    fn c07_bcj_ia64_split_k20_enc() { bcj_split_homomorphism::<34>(BCJFilter::new_ia64, 16, 20, true); }
    #[kani::proof]
    #[kani::unwind(40)]
    fn c07_bcj_ia64_split_k20_dec() { bcj_split_homomorphism::<34>(BCJFilter::new_ia64, 16, 20, false); }
