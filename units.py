"""Unit table: every verification unit, the property ids it serves, the harnesses that decide it.

kind  = "complete": all inputs of the stated machine domain (Kani, loops bounded by the types, unwinding
        assertions on) or unbounded (Verus) -> counted in obligations/discharged
      = "bounded":  stand-in with a bound not implied by the types -> never counted as proved
tier  = "quick" (run in both tiers) | "thorough" (thorough only)
"""

ERR = ["err_stub: crate::error_* constructors replaced by Error::from(kind) (message dropped, kind kept)"]

GLOBAL_ASSUMPTIONS = [
    "overflow-checks=on semantics (dev/test profile): arithmetic overflow is a failed obligation unless the source uses wrapping_*",
    "target x86_64 little endian, 64-bit usize; big-endian / 32-bit cfg variants not compiled",
    "composition of unit contracts into the whole-property statement is a paper lemma (DESIGN.md section 3), not mechanised",
    "harness modules are appended to a scratch copy of /repo (insert-only); production function bodies are compiled unchanged",
]
TRUSTED_BASE = [
    "rustc -> Kani 0.68 MIR-to-goto translation, CBMC 6.11 + CaDiCaL; Kani models of alloc/Vec/Box/Rc/slices",
    "Verus 0.2026.09.13 + Z3 on mechanically extracted function text (tools/vextract.py)",
    "tools/inject.py (insert-only injector)",
]
PROPERTY_ASSUMPTIONS = {}

NOSTD = "encoder,xz,lzip,optimization"   # no_std build: crate-local Read/Write/Error (no io::Error drop glue)

# harness files that refer to items of other harness files (injected together automatically)
FILE_DEPS = {
    "xz/writer.rs": ["xz/reader.rs", "xz.rs", "enc/lzma2_writer.rs"],
    "xz/reader.rs": ["xz.rs", "lzma2_reader.rs"],
    "lzip/writer.rs": ["lzip.rs", "enc/lzma_writer.rs", "enc/lzma2_writer.rs", "enc/mod.rs"],
    "enc/mod.rs": ["enc/lzma_writer.rs"],
    "enc/lzma_writer.rs": ["enc/lzma2_writer.rs"],
    "enc/lzma2_writer.rs": ["enc/range_enc.rs"],
    "enc/lzma2_writer_mt.rs": ["enc/lzma2_writer.rs"],
    "lzma_reader.rs": ["range_dec.rs", "decoder.rs", "state.rs"],
    "lz/hc4.rs": ["lz/lz_encoder.rs"],
    "enc/range_enc.rs": ["range_dec.rs"],
    "enc/encoder.rs": ["enc/range_enc.rs", "range_dec.rs", "decoder.rs", "state.rs"],
    "lzip/reader.rs": ["lzip.rs", "lzma_reader.rs", "range_dec.rs"],
    "filter/bcj/arm.rs": ["filter/bcj.rs"], "filter/bcj/ppc.rs": ["filter/bcj.rs"], "filter/bcj/sparc.rs": ["filter/bcj.rs"],
    "filter/bcj/x86.rs": ["filter/bcj.rs"], "filter/bcj/ia64.rs": ["filter/bcj.rs"], "filter/bcj/riscv.rs": ["filter/bcj.rs"],
}

UNITS = []


def U(**kw):
    kw.setdefault("kind", "complete")
    kw.setdefault("tier", "quick")
    kw.setdefault("stubs", ERR)
    UNITS.append(kw)


PARKED = []


def PARK(**kw):
    """units whose harnesses exist but do not finish within the tier budget yet (not registered, not claimed)"""
    kw.setdefault("kind", "complete")
    kw.setdefault("tier", "quick")
    kw.setdefault("stubs", ERR)
    PARKED.append(kw)


def by_id():
    return {u["id"]: u for u in UNITS + PARKED}


# ------------------------------------------------------------------------------------------- C02
U(id="C02.mbi", props=["C02", "C03", "C06"], file="xz.rs",
  harnesses=["c02_mbi_roundtrip"] + ["c06_mbi_parse_total_%d" % n for n in range(11)] + ["c02_mbi_class_%d" % k for k in range(1, 10)] + ["c06_mbi_contract_short"], canaries=["c02_mbi_canary"],
  functions=[("src/xz.rs", "encode_multibyte_integer"), ("src/xz.rs", "parse_multibyte_integer"),
             ("src/xz.rs", "parse_multibyte_integer_from_reader"), ("src/xz.rs", "count_multibyte_integer_size"),
             ("src/xz.rs", "count_multibyte_integer_size_for_value")],
  contract="forall v:u64: encode Ok <=> v < 2^63; parse(encode(v)) = v; 1..9 bytes, minimal length; size functions agree; "
           "forall <=10 bytes: parse total, slice and reader variants agree and consume the same count")
U(id="C03.ids", props=["C03", "C04", "C06"], file="xz.rs", harnesses=["c03_check_and_filter_ids"],
  functions=[("src/xz.rs", "from_byte", "CheckType"), ("src/xz.rs", "try_from", "FilterType")],
  contract="check-type byte and filter-id tables equal the xz-file-format 1.1.0 tables restricted to the supported set")
U(id="C02.lzip.dict", props=["C02", "C03", "C19"], file="lzip.rs",
  harnesses=["c02_lzip_dict_roundtrip", "c06_lzip_dict_decode_total"], canaries=["c02_lzip_dict_canary"],
  functions=[("src/lzip.rs", "encode_dict_size"), ("src/lzip.rs", "decode_dict_size")],
  contract="forall d:u32: encode Ok <=> 4KiB<=d<=512MiB; decode(encode(d)) >= d and < 2d; decode total on all 256 bytes and = lzip spec")

U(id="C02.xz.shdr", props=["C02", "C03", "C04"], file="xz/writer.rs", extra_files=["xz/reader.rs"],
  harnesses=["c02_xz_stream_header_" + c for c in ("none", "crc32", "crc64", "sha256")],
  functions=[("src/xz/writer.rs", "write_stream_header"), ("src/xz/reader.rs", "parse", "StreamHeader"),
             ("src/xz/reader.rs", "parse_flags_and_crc", "StreamHeader")],
  contract="for each check type: 12 header bytes = magic,0,check,crc32le(flags); idempotent; parse returns the same check type")

U(id="C02.xz.index", props=["C02", "C03"], file="xz/writer.rs", extra_files=["xz/reader.rs"],
  harnesses=['c02_xz_index_footer_n0_1_1', 'c02_xz_index_footer_n1_1_1', 'c02_xz_index_footer_n1_2_1', 'c02_xz_index_footer_n1_3_3', 'c02_xz_index_footer_n1_9_9', 'c02_xz_index_footer_n1_5_4', 'c02_xz_index_footer_n2_2_3'],
  kind="bounded", bound="record count <= 2; 7 of the 81 (len(unpadded),len(uncompressed)) encoded-length classes, all values inside each class",
  contract_stubs=["encode_multibyte_integer -> class-k contract (proved in C02.mbi c02_mbi_class_k)"],
  functions=[("src/xz/writer.rs", "write_index"), ("src/xz/writer.rs", "write_stream_footer"),
             ("src/xz/reader.rs", "parse", "Index"), ("src/xz/reader.rs", "parse", "StreamFooter")],
  contract="index with n records of arbitrary 63-bit sizes parses back to the same records, reader consumes exactly the written bytes; "
           "(backward_size+1)*4 = index size; footer flags = header flags; magic YZ")

U(id="C02.xz.index.r", props=["C02", "C03", "C04"], file="xz/reader.rs", extra_files=["xz.rs"],
  harnesses=["c02_xz_index_parse_n%d_%d_%d" % c for c in [(0,1,1),(1,1,1),(1,2,3),(1,9,9),(1,5,4),(2,2,3)]],
  kind="bounded", bound="record count <= 2; 6 encoded-length classes, all values inside each class",
  functions=[("src/xz/reader.rs", "parse", "Index")],
  contract="Index::parse accepts the spec index (xz-file-format 4) and returns exactly its records, consuming exactly its bytes")
# parked (session 5): all three harnesses ran into the 900 s limit with no CBMC check reported; cause not diagnosed
PARK(id="C04.xz.index.count", props=["C04", "C02", "C12"], file="xz/reader.rs", extra_files=["xz.rs"],
  harnesses=["c04_xz_index_footer_count_ok_n0_crc32"], thorough_harnesses=["c04_xz_index_footer_count_n0", "c04_xz_index_footer_count_n1", "c04_xz_index_footer_count_n2"],
  kind="bounded", bound="record count <= 2, one-byte record fields; block counter: every u64; footer: every 12 bytes; every check type",
  functions=[("src/xz/reader.rs", "parse_index_and_footer", "XZReader"), ("src/xz/reader.rs", "parse", "Index"), ("src/xz/reader.rs", "parse", "StreamFooter")],
  contract="XZReader::parse_index_and_footer returns Ok iff the index record count equals the number of blocks decoded and the footer (CRC, flags = header flags, magic) is valid; otherwise InvalidData")
U(id="C04.xz.hdrs", props=["C04", "C06", "C02", "C03"], file="xz/reader.rs", extra_files=["xz.rs"],
  harnesses=["c04_xz_footer_parse_any", "c04_xz_header_parse_any"],
  functions=[("src/xz/reader.rs", "parse", "StreamFooter"), ("src/xz/reader.rs", "parse", "StreamHeader"),
             ("src/xz/reader.rs", "parse_flags_and_crc", "StreamHeader")],
  contract="forall 12 bytes: Ok <=> magic, reserved flag byte 0, supported check id, crc field = crc_fn(covered bytes); fields returned verbatim; all 12 bytes consumed")

U(id="C12.xz.pad", props=["C12", "C04", "C06"], file="xz/reader.rs", extra_files=["xz.rs"], harnesses=['c12_xz_next_valid_p0', 'c12_xz_next_valid_p4', 'c12_xz_next_valid_p8', 'c12_xz_next_valid_p1', 'c12_xz_next_valid_p2', 'c12_xz_next_valid_p3', 'c12_xz_next_valid_p5', 'c12_xz_next_garbage_p0', 'c12_xz_next_garbage_p4', 'c12_xz_next_stream_p0_t0', 'c12_xz_next_stream_p4_t0', 'c12_xz_next_stream_p0_t1'],
  thorough_harnesses=['c12_xz_next_stream_p0_t12', 'c12_xz_next_stream_p4_t12', 'c12_xz_next_stream_p1_t12', 'c12_xz_next_stream_p2_t12', 'c12_xz_next_stream_p4_t5', 'c12_xz_next_stream_p8_t12', 'c12_xz_next_stream_p3_t12', 'c12_xz_next_stream_p5_t12'],
  functions=[("src/xz/reader.rs", "try_start_next_stream")],
  kind="bounded", bound="padding lengths p in {0..5,8} (the counter is used only mod 4), tail = arbitrary 0/1/5/12 bytes",
  contract="p zero bytes then tail: Ok(true) <=> tail is a valid stream header and p%4==0 (header replaced, block counter reset, exactly p+12 bytes consumed); Ok(false) only at EOF; otherwise Err")
U(id="C05.xz.pad", props=["C05", "C04"], file="xz/reader.rs", extra_files=["xz.rs"],
  harnesses=["c05_xz_consume_padding_full", "c05_xz_consume_padding_short", "c05_xz_consume_padding_intr", "c05_xz_consume_padding_eof"],
  functions=[("src/xz/reader.rs", "consume_padding")],
  stubs=ERR + ["io_any: Read stub delivering short reads / Interrupted nondeterministically on every call"],
  contract="for every start position and every read schedule (short reads, Interrupted): Ok <=> the (4-pos%4)%4 padding bytes are zero, exactly those are consumed; EOF inside padding => Err")

U(id="C04.xz.block", props=["C04", "C02", "C16"], file="xz/reader.rs", extra_files=["xz.rs"],
  harnesses=['c04_xz_block_end_none_p0', 'c04_xz_block_end_none_p3', 'c04_xz_block_end_crc32_p0', 'c04_xz_block_end_crc32_p1', 'c04_xz_block_end_crc32_p2', 'c04_xz_block_end_crc32_p3', 'c04_xz_block_end_crc64_p3', 'c04_xz_block_end_crc64_p0'],
  thorough_harnesses=['c04_xz_block_end_sha256_p1'],
  kind="bounded", bound="block payload of 1..3 bytes; padding 0..3 and the four check types as 9 concrete combinations; stored padding/check bytes arbitrary",
  functions=[("src/xz/reader.rs", "read", "Read for XZReader"), ("src/xz/reader.rs", "consume_padding"), ("src/xz/reader.rs", "verify_block_checksum"),
             ("src/xz.rs", "verify", "ChecksumCalculator"), ("src/xz.rs", "update", "ChecksumCalculator"), ("src/xz.rs", "new", "ChecksumCalculator")],
  contract_stubs=["payload layer: the block's filter chain + LZMA2Reader replaced by a stub yielding n<=3 arbitrary bytes then end"],
  contract="bytes returned to the caller = bytes fed to the check; at block end: accepted <=> padding zero and stored Check = check_fn(yielded bytes), exactly pad+check bytes consumed; otherwise Err(InvalidData)")
U(id="C07.xz.zero", props=["C07"], file="xz/reader.rs", extra_files=["xz.rs"],
  harnesses=["c07_xz_zero_read_in_block", "c07_xz_zero_read_fresh_and_finished"],
  functions=[("src/xz/reader.rs", "read", "Read for XZReader")],
  contract_stubs=["payload layer stub (as C04.xz.block)"],
  contract="read(&mut []) returns Ok(0) without consuming source bytes, closing the block or touching the checksum; the next read continues the block")
U(id="C06.xz.index", props=["C06", "C04"], file="xz/reader.rs", extra_files=["xz.rs"],
  harnesses=["c06_xz_index_count_k%d_e%d" % c for c in [(1,0),(2,0),(2,3),(5,2)]],
  thorough_harnesses=["c06_xz_index_count_k1_e4"],
  functions=[("src/xz/reader.rs", "parse", "Index")],
  contract_stubs=["Vec::with_capacity -> asserts capacity*size_of<T> <= 64 KiB, returns Vec::new()"],
  kind="bounded", bound="record count = any value of encoded length 1,2,5 (< 2^35) followed by <= 4 arbitrary bytes",
  contract="Index::parse returns without panic and its pre-allocation is bounded by the input length, for every declared record count")

PAYLOAD_W = ["payload layer: LZMA2Writer::new -> zeroed object; LZEncoder::fill_window -> accepts all bytes (ghost count); LZMAEncoder::encode_for_lzma2 -> Ok(false); LZMA2Writer::finish -> emits 1..4 bytes to inner (the real LZMA2Writer::write loop runs on these)"]
U(id="C03.xz.unpadded", props=["C03", "C02"], file="xz/writer.rs", extra_files=["xz/reader.rs", "xz.rs", "enc/lzma2_writer.rs"],
  harnesses=["c03_xz_prepare_block_start"], contract_stubs=[PAYLOAD_W[0]],
  functions=[("src/xz/writer.rs", "prepare_next_block"), ("src/xz/writer.rs", "write_block_header"), ("src/xz/writer.rs", "encode_lzma2_dict_size")],
  contract="prepare_next_block records the block start before the block header (so unpadded size covers header+data+check, xz-file-format 4.3), writes a 12-byte header for a lone LZMA2 filter, resets the block byte count")
PARK(id="C18.xz.step.real", props=["C18", "C02", "C07"], file="xz/writer.rs", extra_files=["xz/reader.rs", "xz.rs", "enc/lzma2_writer.rs"],
  harnesses=["c18_xz_write_step_e1_lim", "c18_xz_write_step_e4_lim", "c18_xz_write_step_e3_unl"], contract_stubs=[PAYLOAD_W[0]],
  functions=[("src/xz/writer.rs", "write", "Write for XZWriter"), ("src/xz/writer.rs", "should_finish_block"), ("src/xz/writer.rs", "finish_current_block"),
             ("src/xz/writer.rs", "prepare_next_block"), ("src/xz/writer.rs", "new", "XZWriter")],
  contract="inductive step: from any in-block state with u<=limit bytes, write(n) for any n<=9000: every block <= max(block_size,dict_size), blocks partition the bytes in order, no empty block, one index record per finished block with its byte count and unpadded size = header+compressed+check")
PARK(id="C02.xz.finish", props=["C02", "C03", "C18"], file="xz/writer.rs", extra_files=["xz/reader.rs", "xz.rs", "enc/lzma2_writer.rs"],
  harnesses=['c02_xz_finish_empty', 'c02_xz_finish_n5', 'c02_xz_finish_n4096', 'c02_xz_finish_n4097', 'c02_xz_finish_n8192'], contract_stubs=[PAYLOAD_W[0]], kind="bounded", bound="concrete histories: one write of n in {0,5,4096,4097,8192} bytes then finish; block_size=dict=4096",
  functions=[("src/xz/writer.rs", "finish", "XZWriter"), ("src/xz/writer.rs", "finish_current_block"), ("src/xz/writer.rs", "write_index"), ("src/xz/writer.rs", "write_stream_footer"), ("src/xz/writer.rs", "add_padding"), ("src/xz/writer.rs", "write_block_checksum")],
  contract="stream = header | blocks | index | footer; index (real parser) has one record per opened block (none for empty input) with spec sizes; block payload padded with zeros to 4; backward size locates the index")

U(id="C04.check", props=["C04", "C02"], file="xz.rs",
  harnesses=["c04_checksum_verify_crc32", "c04_checksum_verify_crc64", "c04_checksum_verify_sha256", "c04_checksum_verify_none"],
  stubs=[], functions=[("src/xz.rs", "verify", "ChecksumCalculator"), ("src/xz.rs", "update", "ChecksumCalculator"), ("src/xz.rs", "new", "ChecksumCalculator")],
  contract="for every data, every split of the updates and every expected field: verify <=> expected equals check_fn(data) byte for byte with the exact field length")

PAYLOAD_LZMA_W = ["payload layer: LZMAWriter::new -> zeroed encoder + real RangeEncoder; LZEncoder::fill_window -> accepts all bytes (ghost count); LZMAEncoder::encode_for_lzma1 -> Ok(()); LZMAWriter::finish -> emits 1..4 bytes (the real LZMAWriter::write loop and size prechecks run on these)"]
PARK(id="C02.lzip.split.real", props=["C02", "C18", "C03", "C07"], file="lzip/writer.rs", extra_files=["lzip.rs", "enc/lzma_writer.rs", "enc/lzma2_writer.rs"],
  harnesses=["c02_lzip_members_e1", "c02_lzip_members_e4", "c02_lzip_members_unlimited", "c07_lzip_two_writes"],
  contract_stubs=PAYLOAD_LZMA_W,
  functions=[("src/lzip/writer.rs", "write", "Write for LZIPWriter"), ("src/lzip/writer.rs", "new", "LZIPWriter"), ("src/lzip/writer.rs", "start_new_member"),
             ("src/lzip/writer.rs", "finish_current_member"), ("src/lzip/writer.rs", "finish", "LZIPWriter"), ("src/lzip/writer.rs", "should_finish_member"),
             ("src/enc/lzma_writer.rs", "write", "Write for LZMAWriter")],
  contract="for any n<=9000 bytes written in one call (or split in two calls with an empty write between) then finish: members partition the input in order, each <= max(member_size,dict) and full except the last; each member = LZIP header(dict byte) | payload | crc32(member data) | data size | member size=6+payload+20")

for arch, f, hs in [("arm", "arm.rs", ["c11_bcj_arm_group", "c11_bcj_arm_short"]), ("thumb", "arm.rs", ["c11_bcj_thumb_group", "c11_bcj_thumb_short"]),
                    ("arm64", "arm.rs", ["c11_bcj_arm64_group", "c11_bcj_arm64_short"]), ("ppc", "ppc.rs", ["c11_bcj_ppc_group", "c11_bcj_ppc_short"]),
                    ("sparc", "sparc.rs", ["c11_bcj_sparc_group", "c11_bcj_sparc_short"]), ("x86", "x86.rs", ["c11_bcj_x86_group", "c11_bcj_x86_short"]),
                    ("ia64", "ia64.rs", ["c11_bcj_ia64_group", "c11_bcj_ia64_short"]), ("riscv", "riscv.rs", ["c11_bcj_riscv_group", "c11_bcj_riscv_two"])]:
    fn = {"arm": "arm_code", "thumb": "arm_thumb_code", "arm64": "arm64_code", "ppc": "ppc_code", "sparc": "sparc_code", "x86": "x86_code", "ia64": "ia64_code", "riscv": "riscv_code"}[arch]
    U(id="C11.group." + arch, props=["C11", "C06", "C07"], file="filter/bcj/" + f, extra_files=["filter/bcj.rs"], harnesses=hs, stubs=[],
      kind="bounded", bound="buffers of 3..19 arbitrary bytes (1-3 instruction groups) at every aligned stream position < 2^62",
      functions=[("src/filter/bcj/" + f, fn)],
      contract="forall bytes, forall aligned pos < 2^62: no panic; encoder and decoder convert the same prefix r, pos += r, bytes >= r untouched; decode(encode(x)) = x; only a tail shorter than one group stays unconverted")

U(id="C11.loop.arm", props=["C11", "C06", "C07"], backend="verus", verus="bcj_arm.json", harnesses=[], stubs=[],
  functions=[("src/filter/bcj/arm.rs", "arm_code")],
  contract="for EVERY buffer length: no index/overflow error, terminates, returns r = 4*floor(len/4) (0 if len<4), pos += r, only bytes of converted groups change (opcode byte and tail untouched), is_encoder/prev_mask unchanged")

for arch, fl, fn in [("ppc", "ppc.rs", "ppc_code"), ("sparc", "sparc.rs", "sparc_code"), ("arm64", "arm.rs", "arm64_code"), ("thumb", "arm.rs", "arm_thumb_code")]:
    U(id="C11.loop." + arch, props=["C11", "C06", "C07"], backend="verus", verus="bcj_%s.json" % arch, harnesses=[], stubs=[],
      functions=[("src/filter/bcj/" + fl, fn)],
      contract="for EVERY buffer length: no index/overflow error, terminates, returns the converted prefix r (multiple of the stride, r+4 > len, 0 if len<4), pos += r, bytes >= r untouched, is_encoder/prev_mask unchanged")

U(id="C01.lzd.ring", props=["C01", "C06"], backend="verus", verus="lzd.json", harnesses=[], stubs=[],
  functions=[("src/lz/lz_decoder.rs", "reset"), ("src/lz/lz_decoder.rs", "set_limit"), ("src/lz/lz_decoder.rs", "has_space"),
             ("src/lz/lz_decoder.rs", "get_byte"), ("src/lz/lz_decoder.rs", "put_byte")],
  contract="for EVERY dictionary size 1..2^63-1: representation invariant wf (buf.len = buf_size, start <= pos <= full <= buf_size, limit <= buf_size) is preserved by reset/set_limit/put_byte; no index or overflow error under wf; get_byte(d) = buf[(pos-d-1) mod buf_size]; put_byte stores b at pos, advances pos by one, full = max(full,pos), nothing else changes (whole-buffer postcondition: buf' = buf.update(pos,b)); verified exec witness composes them: put,put then get_byte(0),get_byte(1) return the two bytes")

U(id="C01.lze.pos", props=["C01"], backend="verus", verus="lze.json", harnesses=[], stubs=[],
  functions=[("src/lz/lz_encoder.rs", "is_started"), ("src/lz/lz_encoder.rs", "has_enough_data"),
             ("src/lz/lz_encoder.rs", "move_pos"), ("src/lz/lz_encoder.rs", "get_buf_size")],
  contract="for EVERY window size: encoder window invariant wf (-1 <= read_pos <= write_pos <= buf_size = buf.len, read_limit <= write_pos) preserved by move_pos; move_pos advances read_pos by exactly one, returns avail or (0 and pending_size+1) exactly by the flushing/finishing rule, changes no other field (whole-struct frame); has_enough_data/is_started exact; get_buf_size = keep_before + keep_after + min(dict/2+256K, 512M) without overflow under its stated bound")

U(id="C11.delta", props=["C11", "C07", "C06", "C19"], file="filter/delta.rs", stubs=[],
  harnesses=["c11_delta_step_inverse", "c11_delta_reference", "c07_delta_split", "c11_delta_new"],
  functions=[("src/filter/delta.rs", "encode", "Delta"), ("src/filter/delta.rs", "decode", "Delta"), ("src/filter/delta.rs", "new", "Delta")],
  contract="coupling invariant (inductive): equal states stay equal and decode(encode(x))=x for every state/distance; out[k]=in[k]-in[k-d] (reference definition, zero history at start); call-splitting homomorphism; reader/writer constructors agree")
U(id="C05.delta.io", props=["C05", "C07"], file="filter/delta.rs",
  harnesses=["c05_delta_reader", "c05_delta_writer_short", "c05_delta_writer_error"],
  stubs=ERR + ["io_any source/sink: short reads/writes, Interrupted, error at a chosen call"],
  functions=[("src/filter/delta.rs", "read", "Read for DeltaReader"), ("src/filter/delta.rs", "write", "Write for DeltaWriter")],
  contract="reader: returns the source's count, decodes exactly those bytes, source error passes through with state untouched, zero-length read is a no-op; writer: Ok(n) commits exactly the first n bytes (sink content and filter state), sink error is returned")

U(id="C07.bcj.reader", props=["C07", "C05", "C06", "C11"], file="filter/bcj.rs",
  harnesses=["c07_bcj_reader_split_1", "c07_bcj_reader_split_5", "c07_bcj_reader_split_9"],
  kind="bounded", bound="10-byte source (2 groups + 2 tail bytes), ARM filter, first read of 1/5/9 bytes, any bytes, any aligned start < 2^40",
  functions=[("src/filter/bcj.rs", "read", "Read for BCJReader"), ("src/filter/bcj.rs", "new", "BCJReader"), ("src/filter/bcj.rs", "code", "BCJFilter")],
  contract="output = decoder filter applied once to the whole stream, for every split of the reads; unconverted tail emitted only at EOF; after EOF reads return Ok(0); zero-length read is a no-op; internal asserts unreachable")

U(id="C05.bcj.reader.io", props=["C05", "C07"], file="filter/bcj.rs",
  harnesses=["c05_bcj_reader_interrupted_0", "c05_bcj_reader_interrupted_1", "c05_bcj_reader_interrupted_2"],
  stubs=ERR + ["copy_error -> kind-preserving copy"],
  kind="bounded", bound="10-byte source, ARM filter, first read of 3 bytes then 2 more reads (the retry after the error included); one Interrupted at inner call 0, 1 or 2",
  functions=[("src/filter/bcj.rs", "read", "Read for BCJReader")],
  contract="with short reads, Interrupted or a failing source: successful reads concatenate to a prefix of the correctly filtered stream; Ok(0) only after the whole stream; the source's error kind is returned and stays returned")

U(id="C07.bcj.writer", props=["C07", "C11"], file="filter/bcj.rs",
  harnesses=["c07_bcj_writer_single", "c07_bcj_writer_two_aligned_writes"],
  known_findings=[{"harness": "kf_c07_bcj_writer_two_writes"}],
  kind="bounded", bound="10/12-byte inputs, ARM filter",
  functions=[("src/filter/bcj.rs", "write", "Write for BCJWriter")],
  contract="sink = encoder filter applied to the concatenation of the writes (known finding D17: fails when a write leaves an unconverted tail)")

U(id="C01.lzd.view", props=["C01", "C04", "C06", "C07", "C05", "C16"], file="lz/lz_decoder.rs",
  harnesses=["c01_lzd_repeat", "c07_lzd_pending_resume", "c01_lzd_put_flush", "c05_lzd_copy_uncompressed"],
  kind="bounded", bound="dictionary ring of N=6 bytes, match length <= 2N; every ring state satisfying the representation invariant, every dist/len/limit",
  functions=[("src/lz/lz_decoder.rs", "repeat"), ("src/lz/lz_decoder.rs", "repeat_pending"), ("src/lz/lz_decoder.rs", "put_byte"), ("src/lz/lz_decoder.rs", "get_byte"),
             ("src/lz/lz_decoder.rs", "flush"), ("src/lz/lz_decoder.rs", "set_limit"), ("src/lz/lz_decoder.rs", "reset"), ("src/lz/lz_decoder.rs", "copy_uncompressed"), ("src/lz/lz_decoder.rs", "new", "LZDecoder")],
  contract="view = history H: repeat(d,l): Err and unchanged iff d>=|H|, else appends min(room,l) bytes each equal to the byte d+1 back (overlap replicates), rest pending; repeat_pending resumes to the same bytes; put/get/flush/set_limit/reset/copy_uncompressed on H; representation invariant preserved; no panic")

NOOPT = "std,encoder,xz,lzip"   # std build without the `optimization` feature: portable Rust instead of inline asm / SIMD
U(id="C01.rc.step", props=["C01", "C16"], file="enc/range_enc.rs", extra_files=["range_dec.rs"],
  harnesses=["c01_rc_step_lockstep", "c01_rc_direct_lockstep", "c01_rc_shift_low_accounting"],
  thorough_harnesses=["c16_rc_finish_count_1", "c16_rc_finish_count_3"],
  functions=[("src/enc/range_enc.rs", "encode_bit"), ("src/range_dec.rs", "decode_bit"), ("src/range_dec.rs", "normalize"), ("src/enc/range_enc.rs", "encode_direct_bits"),
             ("src/enc/range_enc.rs", "shift_low"), ("src/enc/range_enc.rs", "finish"), ("src/enc/range_enc.rs", "finish_buffer"), ("src/enc/range_enc.rs", "get_pending_size"), ("src/enc/range_enc.rs", "reset_buffer")],
  assumptions=["C01.rc: only the per-step lockstep and byte accounting are proved; that a whole arithmetic-coded stream decodes (interval invariant through carry propagation) is not proved"],
  contract="one modelled bit / one direct bit: encoder and decoder compute the same bound, bit, probability update and range; encoder renormalises exactly when the decoder will pull a byte; low advances by what the decoder subtracts from code; shift_low accounts one byte per call; finish emits cache_size+4 = get_pending_size bytes")
U(id="C01.rc.dbits", props=["C01", "C14", "C06", "C15"], file="range_dec.rs", harnesses=["c06_rc_buffer_read_u8", "c01_rc_decode_direct_bits"], stubs=[],
  kind="bounded", bound="count <= 4 direct bits from any decoder state (loop body uniform)",
  functions=[("src/range_dec.rs", "decode_direct_bits"), ("src/range_dec.rs", "read_u8", "RangeReader for RangeDecoderBuffer"), ("src/range_dec.rs", "is_finished")],
  assumptions=["inline-asm decode_direct_bits_x86_64/aarch64 are outside Kani and Verus: only the portable loop is verified (against the reference loop the source documents)"],
  contract="portable decode_direct_bits = the documented reference loop for every state with code<range and count<=26 (result, range, code, bytes pulled); buffer reader: out-of-range reads give 0 and make is_finished false")

BCJ_SPLIT = {'x86': ['c07_bcj_x86_split_k5_enc', 'c07_bcj_x86_split_k5_dec', 'c07_bcj_x86_split_k6_enc', 'c07_bcj_x86_split_k6_dec', 'c07_bcj_x86_split_k7_enc', 'c07_bcj_x86_split_k7_dec', 'c07_bcj_x86_split_k8_enc', 'c07_bcj_x86_split_k8_dec', 'c07_bcj_x86_split_k9_enc', 'c07_bcj_x86_split_k9_dec'], 'arm': ['c07_bcj_arm_split_k5_enc', 'c07_bcj_arm_split_k5_dec', 'c07_bcj_arm_split_k6_enc', 'c07_bcj_arm_split_k6_dec'], 'thumb': ['c07_bcj_thumb_split_k5_enc', 'c07_bcj_thumb_split_k5_dec', 'c07_bcj_thumb_split_k6_enc', 'c07_bcj_thumb_split_k6_dec'], 'arm64': ['c07_bcj_arm64_split_k6_enc', 'c07_bcj_arm64_split_k6_dec'], 'ppc': ['c07_bcj_ppc_split_k6_enc', 'c07_bcj_ppc_split_k6_dec'], 'sparc': ['c07_bcj_sparc_split_k7_enc', 'c07_bcj_sparc_split_k7_dec'], 'ia64': ['c07_bcj_ia64_split_k20_enc', 'c07_bcj_ia64_split_k20_dec'], 'riscv': ['c07_bcj_riscv_split_k9_enc', 'c07_bcj_riscv_split_k9_dec', 'c07_bcj_riscv_split_k10_enc', 'c07_bcj_riscv_split_k10_dec']}
BCJ_SPLIT_QUICK = {"x86": ["c07_bcj_x86_split_k5_dec", "c07_bcj_x86_split_k6_dec", "c07_bcj_x86_split_k6_enc"], "riscv": ["c07_bcj_riscv_split_k10_enc", "c07_bcj_riscv_split_k10_dec"]}
for arch, hs_all in BCJ_SPLIT.items():
    hs = BCJ_SPLIT_QUICK.get(arch, hs_all)
    fl = {"arm": "arm.rs", "thumb": "arm.rs", "arm64": "arm.rs", "ppc": "ppc.rs", "sparc": "sparc.rs", "x86": "x86.rs", "ia64": "ia64.rs", "riscv": "riscv.rs"}[arch]
    U(id="C07.bcj.code." + arch, props=["C07", "C11"], file="filter/bcj/" + fl, extra_files=["filter/bcj.rs"], harnesses=hs, stubs=[],
      thorough_harnesses=[h for h in hs_all if h not in hs],
      kind="bounded", bound="streams of 10..34 arbitrary bytes cut at the listed offsets, every aligned start < 2^40, both directions",
      functions=[("src/filter/bcj/" + fl, {"arm": "arm_code", "thumb": "arm_thumb_code", "arm64": "arm64_code", "ppc": "ppc_code", "sparc": "sparc_code", "x86": "x86_code", "ia64": "ia64_code", "riscv": "riscv_code"}[arch])],
      contract="filtering a stream in one call = filtering a prefix, then the unconverted tail re-presented with the rest: same bytes, same final position, same carried state (x86 prev_mask)")

U(id="C01.l2.hdr.r", props=["C01", "C03", "C04", "C06", "C16", "C05"], file="lzma2_reader.rs",
  harnesses=["c01_l2_chunk_header"], thorough_harnesses=["c05_l2_chunk_header_truncated"],
  contract_stubs=["payload layer: LZMADecoder::new -> zeroed (ghost args), LZMADecoder::reset -> ghost count, RangeDecoder::prepare -> ghost compressed size"],
  functions=[("src/lzma2_reader.rs", "decode_chunk_header"), ("src/lzma2_reader.rs", "decode_props"), ("src/lzma2_reader.rs", "new", "LZMA2Reader")],
  contract="forall 6 header bytes x flag states: LZMA2 control grammar of the xz spec (0 end; 1/2 uncompressed with/without dict reset; 3..7F invalid; 80..FF LZMA with state/props/dict reset bits), sizes decoded big-endian +1, props<=224 and lc+lp<=4, missing dict reset / props rejected, exact bytes consumed; truncated header is an error")
U(id="C17.dec.lzma2", props=["C17", "C06"], file="lzma2_reader.rs", harnesses=["c17_lzma2_memory_usage"], stubs=[],
  functions=[("src/lzma2_reader.rs", "get_dict_size"), ("src/lzma2_reader.rs", "get_memory_usage")],
  contract="forall dict_size:u32: no overflow; rounded dictionary is a multiple of 16 covering dict_size; estimate >= dictionary + 64 KiB chunk buffer and within 104 KiB of it")

U(id="C02.lzip.hist", props=["C02", "C18"], timeout_quick=600, file="lzip/writer.rs",
  harnesses=["c02_lzip_hist_n4101"], thorough_harnesses=["c02_lzip_hist_n10", "c02_lzip_hist_n8193"],
  contract_stubs=PAYLOAD_LZMA_W, kind="bounded", bound="concrete histories: one write of 10 / 4101 / 8193 position-dependent bytes then finish; member size = dict = 4096",
  functions=[("src/lzip/writer.rs", "write", "Write for LZIPWriter"), ("src/lzip/writer.rs", "new", "LZIPWriter"), ("src/lzip/writer.rs", "start_new_member"),
             ("src/lzip/writer.rs", "finish_current_member"), ("src/lzip/writer.rs", "finish", "LZIPWriter"), ("src/lzip/writer.rs", "should_finish_member"),
             ("src/enc/lzma_writer.rs", "write", "Write for LZMAWriter")],
  contract="members partition the input in order, each <= member size and full except the last; each member = LZIP header(dict byte) | payload | crc32(member data) | data size | member size=6+payload+20")

U(id="C17.enc", props=["C17"], file="enc/lzma2_writer.rs", extra_files=["lz/hash234.rs", "lz/lz_encoder.rs"], stubs=[],
  harnesses=["c17_enc_estimator", "lz::hash234::verif_kani::c17_hash4_size_spec", "lz::lz_encoder::verif_kani::c17_lz_encoder_memory"],
  functions=[("src/enc/lzma2_writer.rs", "get_memory_usage", "LZMAOptions"), ("src/enc/encoder.rs", "get_mem_usage"), ("src/enc/encoder_fast.rs", "get_memory_usage"),
             ("src/enc/encoder_normal.rs", "get_memory_usage"), ("src/lz/lz_encoder.rs", "get_memory_usage", "LZEncoder"), ("src/lz/lz_encoder.rs", "get_buf_size"),
             ("src/lz/hc4.rs", "get_mem_usage"), ("src/lz/bt4.rs", "get_mem_usage"), ("src/lz/hash234.rs", "get_mem_usage"), ("src/lz/hash234.rs", "get_hash4_size"), ("src/enc/lzma2_writer.rs", "get_extra_size_before")],
  assumptions=["C17: 'peak heap' is represented by the allocation-size terms of the constructors (window buffer, hash2/3/4 tables, chain/tree, optimum table); the terms are tied to the constructors by reading, not by a proof (C17.sites not built)"],
  contract="forall dict in [4 KiB, 1 GiB] x mode x match finder: no overflow; KiB*1024 >= sum of the allocation terms and <= sum*9/8 + 512 KiB; get_buf_size and get_hash4_size equal their specifications")
U(id="C17.dec.lzma", props=["C17", "C06", "C19"], file="lzma_reader.rs", harnesses=["c17_lzma_memory_usage", "c17_lzma_new_mem_limit"], replayable=["c17_lzma_memory_usage"],
  contract_stubs=["LZDecoder::new -> records the requested size, returns an empty decoder; LZMADecoder::new -> records lc/lp/pb, zeroed object"],
  functions=[("src/lzma_reader.rs", "get_memory_usage"), ("src/lzma_reader.rs", "get_memory_usage_by_props"), ("src/lzma_reader.rs", "get_dict_size"),
             ("src/lzma_reader.rs", "new_mem_limit"), ("src/lzma_reader.rs", "construct1"), ("src/lzma_reader.rs", "construct2")],
  contract="forall (dict,lc,lp)/(dict,props): Err exactly outside the ranges, no overflow, estimate >= dictionary + probability tables; new_mem_limit on any 13-byte header: need>limit => OutOfMemory before any allocation, dictionary allocated = rounded clamped size <= estimate, decoder gets the header's lc/lp/pb")
U(id="C01.sym.slot", props=["C01", "C03"], file="enc/encoder.rs", extra_files=["state.rs"], stubs=[],
  harnesses=["c01_dist_slot", "c01_dist_state", "state::verif_kani::c01_state_tables"],
  functions=[("src/enc/encoder.rs", "get_dist_slot"), ("src/lib.rs", "get_dist_state"), ("src/lib.rs", "coder_get_dict_size"),
             ("src/state.rs", "update_literal"), ("src/state.rs", "update_match"), ("src/state.rs", "update_long_rep"), ("src/state.rs", "update_short_rep")],
  contract="forall dist:u32: slot<64, base<=dist<base+2^footer_bits, base|footer = dist (decoder reconstruction), monotone; len->dist state = min(len-2,3); state machine = LZMA specification tables")
U(id="C19.props", props=["C19", "C03", "C18"], file="enc/lzma2_writer.rs", stubs=[], harnesses=["c19_props_roundtrip", "c19_presets_in_range"],
  functions=[("src/enc/lzma2_writer.rs", "get_props"), ("src/enc/lzma2_writer.rs", "with_preset"), ("src/enc/lzma2_writer.rs", "set_preset"), ("src/enc/lzma2_writer.rs", "get_extra_size_before")],
  contract="in-range (lc,lp,pb) <-> properties byte <= 224 bijectively (the readers' decomposition recovers them); every preset yields in-range options")
U(id="C01.l2.w", props=["C01", "C03", "C18", "C07"], file="enc/lzma2_writer.rs", extra_files=["enc/range_enc.rs"],
  harnesses=["c01_l2_write_lzma", "c01_l2_write_uncompressed", "c01_l2_new_flags"],
  contract_stubs=["LZMA2Writer encoder storage zeroed (never driven); LZEncoderData::copy_uncompressed -> records (backward,len); LZMAEncoder::new -> zeroed pair"],
  functions=[("src/enc/lzma2_writer.rs", "write_lzma"), ("src/enc/lzma2_writer.rs", "write_uncompressed"), ("src/enc/lzma2_writer.rs", "new", "LZMA2Writer"),
             ("src/enc/lzma2_writer.rs", "should_start_independent_chunk"), ("src/enc/range_enc.rs", "write_to")],
  contract="chunk headers = xz LZMA2 grammar for every size/flag/props state; props byte present iff announced; dictionary reset announced iff needed; uncompressed data split in contiguous 64 KiB pieces; protocol invariant (independent-chunk request implies dict-reset and props requests) preserved by every step")
SCHED = ["thread schedules are not explored: Kani executes sequentially; atomicity of Mutex / mpsc / atomics is assumed from std"]
U(id="C08.queue", props=["C08", "C10"], file="work_queue.rs", harnesses=["c08_queue_fifo"], stubs=[], assumptions=SCHED,
  functions=[("src/work_queue.rs", "push"), ("src/work_queue.rs", "steal"), ("src/work_queue.rs", "try_steal"), ("src/work_queue.rs", "close"),
             ("src/work_queue.rs", "len"), ("src/work_queue.rs", "is_closed_and_empty")],
  contract="sequential FIFO: each pushed item handed out exactly once in order; push after close refused; closed and drained queue returns None without blocking")
U(id="C10.lock", props=["C10"], file="work_queue.rs", harnesses=["c10_queue_close_lock_discipline"], assumptions=SCHED, contract_stubs=["AtomicBool::store wrapper (lock-held assertion), Condvar::notify_* no-op"],
  stubs=["AtomicBool::store -> asserts that the paired queue mutex is held (try_lock fails), then performs the store"],
  functions=[("src/work_queue.rs", "close"), ("src/work_queue.rs", "steal")],
  contract="monitor discipline (sufficient for no lost wake-up): the closed flag read by the condvar wait predicate is written only while the queue mutex is held")
CHAIN_W = ["XZWriter::prepare_next_block -> contract stub: block start recorded, real write_block_header, payload chain (accepts all bytes, emits 1..4 bytes on finish) installed"]
U(id="C02.xz.empty", props=["C02", "C03"], file="xz/writer.rs", features=NOSTD, harnesses=["c02_xz_finish_empty_stream"],
  functions=[("src/xz/writer.rs", "finish", "XZWriter"), ("src/xz/writer.rs", "finish_current_block"), ("src/xz/writer.rs", "write_index"), ("src/xz/writer.rs", "write_stream_footer")],
  contract="finish() on a writer that received no data emits stream header | index with 0 records | footer (32 bytes, xz-file-format 2.1)")
PARK(id="C18.xz.step", props=["C18", "C02", "C07"], file="xz/writer.rs", features=NOSTD, harnesses=["c18_xz_write_step2_e1_lim", "c18_xz_write_step2_e3_unl"], contract_stubs=CHAIN_W,
  functions=[("src/xz/writer.rs", "write", "Write for XZWriter"), ("src/xz/writer.rs", "should_finish_block"), ("src/xz/writer.rs", "finish_current_block"), ("src/xz/writer.rs", "new", "XZWriter")],
  contract="inductive step: from any in-block state with u<=limit bytes, write(n) for any n<=9000: every block <= max(block_size,dict_size), blocks partition the bytes in order, no empty block, one index record per finished block with its byte count and unpadded size = header+compressed+check")
U(id="C04.lzip.member", props=["C04", "C06", "C03", "C02"], file="lzip/reader.rs",
  harnesses=["c04_lzip_header_parse_any", "c04_lzip_trailer_parse_any", "c04_lzip_finish_member"],
  contract_stubs=["LZMAReader with zeroed decoder storage (only its range decoder's inner reader is used)"],
  functions=[("src/lzip.rs", "parse", "LZIPHeader"), ("src/lzip.rs", "parse", "LZIPTrailer"), ("src/lzip/reader.rs", "finish_current_member")],
  contract="header: Ok <=> magic, version 1, valid dictionary byte; trailer fields little endian; member accepted <=> stored crc = crc_fn(yielded bytes), stored data size = yielded count, stored member size = 6+compressed+20")
SIMD = ["SIMD (AVX2/SSE4.1/NEON) normalisation and inline-asm direct-bit decoding are outside Kani and Verus: trusted, checked only through the scalar / portable text and their documented semantics"]
U(id="C14.extend", props=["C14", "C15"], file="lz/mod.rs", harnesses=["c14_extend_match"], stubs=[], kind="bounded", bound="window of 24 bytes (three machine words + tail), every position/length/distance/limit satisfying the call-site precondition",
  functions=[("src/lz/mod.rs", "extend_match"), ("src/lz/mod.rs", "extend_match_safe")],
  contract="optimization build (get_unchecked + read_unaligned): result = current_len + common-prefix length capped by the limit; all raw reads inside the buffer")
U(id="C14.extend.safe", props=["C14"], file="lz/mod.rs", harnesses=["c14_extend_match"], stubs=[], features=NOOPT, kind="bounded", bound="as C14.extend, build without the optimization feature",
  functions=[("src/lz/mod.rs", "extend_match"), ("src/lz/mod.rs", "extend_match_safe")],
  contract="safe-slice variant satisfies the same contract as the raw-pointer variant => the two cfg twins are equal on the precondition")
U(id="C15.aligned", props=["C15", "C13", "C14"], file="lz/aligned_memory.rs", harnesses=["c15_aligned_memory"], stubs=[], kind="bounded", bound="requested length 1..48 elements",
  functions=[("src/lz/aligned_memory.rs", "new", "AlignedMemoryI32"), ("src/lz/aligned_memory.rs", "as_ref"), ("src/lz/aligned_memory.rs", "as_mut"), ("src/lz/aligned_memory.rs", "drop")],
  contract="allocation >= requested, slice view = allocation, 64-byte aligned, zero-initialised, dealloc with the same layout")
U(id="C14.norm", props=["C14", "C13"], file="lz/lz_encoder.rs", harnesses=["c14_normalize_scalar"], stubs=[], assumptions=SIMD,
  functions=[("src/lz/lz_encoder.rs", "normalize_scalar")],
  contract="forall elements and offsets >= 0: scalar result = max(p,off)-off = the documented SIMD semantics; independent of how the slice is split")
U(id="C18.lzma", props=["C18", "C03", "C01"], file="enc/lzma_writer.rs", features=NOSTD, harnesses=["c03_lzma_header_bytes", "c18_lzma_expected_size"],
  contract_stubs=PAYLOAD_LZMA_W + ["LZMAEncoder::new -> zeroed (encoder, mode) pair"],
  functions=[("src/enc/lzma_writer.rs", "new", "LZMAWriter"), ("src/enc/lzma_writer.rs", "write", "Write for LZMAWriter"), ("src/enc/lzma_writer.rs", "finish", "LZMAWriter")],
  contract="13-byte .lzma header = props | dict LE | size LE (all ones when undeclared) for every option value; declared size E: writes accepted exactly up to E in total (excess refused, nothing consumed), finish succeeds iff total == E; encoder receives exactly the accepted bytes")
U(id="C16.xz.stop", props=["C16", "C12"], file="xz/reader.rs",
  harnesses=["c16_xz_end_of_blocks_single", "c16_xz_end_of_blocks_single_ignores_next", "c16_xz_end_of_blocks_multi_none", "c16_xz_end_of_blocks_multi_next"],
  contract_stubs=["BlockHeader::parse -> index indicator => Ok(None); XZReader::parse_index_and_footer and try_start_next_stream -> ghost call log (their own contracts: C02.xz.index.r, C04.xz.hdrs, C12.xz.pad)"],
  functions=[("src/xz/reader.rs", "prepare_next_block")],
  contract="end of blocks: index+footer always verified first; single-stream mode: finished with no further access to the source (no look-ahead); multi-stream mode: exactly one look-ahead per finished stream, the next stream's blocks follow")
U(id="C19.lzip", props=["C19", "C18"], file="lzip/writer.rs", harnesses=["c19_lzip_new_normalises"], stubs=[],
  functions=[("src/lzip/writer.rs", "new", "LZIPWriter")],
  contract="forall option values (u32/u64 domains): lc/lp/pb forced to 3/0/2, dictionary clamped into 4 KiB..512 MiB, member size >= dictionary size")
U(id="C19.xz", props=["C19", "C02", "C18", "C03"], file="xz/writer.rs", features=NOSTD,
  harnesses=["c19_xz_new_delta", "c19_xz_new_bcj_a1", "c19_xz_new_bcj_a2", "c19_xz_new_bcj_a4", "c19_xz_new_bcj_a16", "c19_xz_dict_size_byte",
             "c02_xz_bhdr_delta", "c02_xz_bhdr_bcj_offset", "c02_xz_bhdr_bcj_zero"],
  thorough_harnesses=["c19_xz_new_filters_and_block_size"],
  functions=[("src/xz/writer.rs", "new", "XZWriter"), ("src/xz/writer.rs", "write_block_header"), ("src/xz/writer.rs", "encode_lzma2_dict_size")],
  contract="forall u32 filter properties: refused, or the block header carries exactly what the reader decodes (delta distance 1..=256, BCJ start offset aligned, LE); >3 pre-filters refused; block size >= dictionary; dictionary byte = smallest representable size >= dict_size")
U(id="C08.cut", props=["C08", "C18", "C06"], file="lzma2_reader_mt.rs", harnesses=["c08_mt_cut_step"], tier="thorough", timeout=1500, assumptions=SCHED,
  contract_stubs=["spawn_worker_thread -> ghost counter (thread::spawn is outside Kani)", "send_work_unit -> records the unit, starts a fresh one", "alloc::fmt::format -> empty String"],
  kind="bounded", bound="one cutter step; chunk data size 1..4 bytes (size arithmetic unrestricted); pending unit empty or 2 bytes",
  functions=[("src/lzma2_reader_mt.rs", "read_and_dispatch_chunk")],
  contract="a work unit is cut (0x00 appended, sent) exactly before a dictionary-resetting chunk (control >= 0xE0 or 0x01) and at the end marker; chunk bytes appended unchanged with the sizes their header declares; reserved control bytes rejected")
U(id="C18.xz.split", props=["C18", "C02", "C07"], file="xz/writer.rs", features=NOSTD, harnesses=["c18_xz_write_splits_blocks"],
  contract_stubs=["XZWriter::write_stream_header / prepare_next_block / finish_current_block -> ghost call log with their contracts (bodies proved in C02.xz.shdr, C03.xz.unpadded, C02.xz.index)", "payload chain accepts all bytes"],
  functions=[("src/xz/writer.rs", "write", "Write for XZWriter"), ("src/xz/writer.rs", "should_finish_block")],
  contract="one write of any n<=9000 bytes with block_size 4096: header first; blocks opened/closed alternately; every block 1..=4096 bytes; blocks partition the bytes in order; everything consumed and counted once")
PARK(id="C02.lzip.split", props=["C02", "C18", "C07"], file="lzip/writer.rs", features=NOSTD, harnesses=["c02_lzip_write_splits_members"],
  contract_stubs=["LZIPWriter::start_new_member / finish_current_member -> ghost member log with their contracts (bodies: C02.lzip.hist)", "payload writer accepts all bytes (LZEncoder::fill_window, encode_for_lzma1 stubs under the real LZMAWriter::write)"],
  functions=[("src/lzip/writer.rs", "write", "Write for LZIPWriter"), ("src/lzip/writer.rs", "should_finish_member"), ("src/enc/lzma_writer.rs", "write", "Write for LZMAWriter")],
  contract="one write of any n<=9000 bytes with member size 4096: members opened/closed alternately, each 1..=4096 bytes and full except the last, partition of the input in order, per-member CRC and size computed from exactly the member's bytes")
U(id="C12.lzip.member", props=["C12", "C04"], file="lzip/reader.rs", features=NOSTD,
  harnesses=["c12_lzip_start_member_valid", "c12_lzip_trailing_garbage_after_member"],
  known_findings=[{"harness": "kf_c04_lzip_damaged_header_is_eof"}],
  contract_stubs=["LZDecoder::new -> empty decoder; LZMADecoder::new -> zeroed object"],
  functions=[("src/lzip/reader.rs", "start_next_member"), ("src/lzip.rs", "parse", "LZIPHeader")],
  contract="valid member start => Ok(true), decoder set up, counters restarted, 11 bytes consumed; after a complete member: EOF or non-magic bytes => clean end (the loss the format defines); known finding D16: damaged-but-recognisable header and foreign first bytes are also reported as clean end")
BITCHAN = ["bit channel: RangeEncoder::encode_bit/encode_direct_bits and RangeDecoder::decode_bit/decode_direct_bits replaced by a FIFO of (slot, bit) events, slot = byte offset inside the corresponding coder structure; the decoder asserts it reads the slot the encoder wrote (the real bit-tree functions run on top)"]
U(id="C01.sym.len", props=["C01"], file="enc/encoder.rs", harnesses=["c01_sym_len_ps0", "c01_sym_len_ps15"], thorough_harnesses=["c01_sym_len_ps5"], contract_stubs=BITCHAN,
  functions=[("src/enc/encoder.rs", "encode", "LengthEncoder"), ("src/decoder.rs", "decode", "LengthCoder"), ("src/enc/range_enc.rs", "encode_bit_tree"), ("src/range_dec.rs", "decode_bit_tree")],
  contract="forall len in 2..=273 (pos_state 0, 15; 5 in thorough): decode(encode(len)) = len, same probability slots in the same order, channel drained")
U(id="C01.sym.rep", props=["C01"], file="enc/encoder.rs", harnesses=["c01_sym_rep_ps0", "c01_sym_rep_ps9"], tier="thorough", timeout=1800, contract_stubs=BITCHAN,
  functions=[("src/enc/encoder.rs", "encode_rep_match"), ("src/decoder.rs", "decode_rep_match")],
  contract="forall rep<4, len (1 only with rep 0), state, rep history: decoder returns len; both sides end with the same rotated history (rep[0] = chosen distance) and state; same slots in the same order")
U(id="C01.sym.match", props=["C01"], file="enc/encoder.rs", harnesses=["c01_sym_match_small", "c01_sym_match_mid", "c01_sym_match_large"], tier="thorough", timeout=1800, contract_stubs=BITCHAN,
  functions=[("src/enc/encoder.rs", "encode_match"), ("src/decoder.rs", "decode_match"), ("src/enc/range_enc.rs", "encode_reverse_bit_tree"), ("src/range_dec.rs", "decode_reverse_bit_tree")],
  contract="forall dist (classes <4, 4..127, >=128 incl. the end marker), len, state, history: decoder returns len and rep[0] = dist, history shifted, same state, same slots, channel drained")
U(id="C03.xz.finish_block", props=["C03", "C02", "C18"], file="xz/writer.rs", features=NOSTD,
  harnesses=["c03_xz_finish_block_crc32_e1", "c03_xz_finish_block_none_e4"], thorough_harnesses=["c03_xz_finish_block_crc64_e2"],
  contract_stubs=["payload chain (accepts all bytes, emits 1..4 bytes on finish) installed as the block's writer"],
  functions=[("src/xz/writer.rs", "finish_current_block"), ("src/xz/writer.rs", "add_padding"), ("src/xz/writer.rs", "write_block_checksum"), ("src/xz/writer.rs", "take_checksum"), ("src/xz/writer.rs", "get_checksum_size")],
  contract="forall bookkeeping states: chain finished, zero padding to 4, Check field, exactly one index record with unpadded = header+compressed+check and uncompressed = this block's byte count; per-block counter restarts, stream counter untouched")
U(id="C01.sym.lit", props=["C01", "C19"], file="enc/encoder.rs", harnesses=["c01_sym_lit_after_literal", "c01_sym_lit_after_match", "c01_sym_lit_subcoder_index"],
  thorough_harnesses=["c01_sym_lit_after_rep", "c01_sym_lit_after_literal5"], contract_stubs=BITCHAN,
  functions=[("src/enc/encoder.rs", "encode", "LiteralSubEncoder"), ("src/decoder.rs", "decode", "LiteralSubDecoder"), ("src/lib.rs", "get_sub_coder_index")],
  contract="forall byte, match byte, rep0, state (literal / after-match modes): decoder appends the encoded byte, same slots in the same order, same next state; sub-coder index < 2^(lc+lp)")
U(id="C13.gate", props=["C13", "C01", "C17"], file="lz/lz_encoder.rs", harnesses=["c13_lz_encoder_new"], stubs=[],
  kind="bounded", bound="dictionary 4096 (sizes are linear in dict), extra sizes <= 4096, every nice_len, both match finders",
  functions=[("src/lz/lz_encoder.rs", "new", "LZEncoder"), ("src/lz/lz_encoder.rs", "new_hc4"), ("src/lz/lz_encoder.rs", "new_bt4")],
  contract="keep_size_before = extra_before + dict, keep_size_after = extra_after + match_len_max (look-ahead gate that makes decisions independent of write partition), buffer = spec size, empty window, match arrays nice_len-1")

MTSTUB = ["spawn_worker_thread -> ghost counter (thread::spawn is outside Kani)", "alloc::fmt::format -> empty String"]
PARK(id="C08.order.w", props=["C08", "C13"], file="enc/lzma2_writer_mt.rs", harnesses=["c08_order_w_lzma2_finishing_n2_realmap"], stubs=[], assumptions=SCHED, contract_stubs=MTSTUB,
  kind="bounded", bound="3 outstanding results, every arrival permutation",
  functions=[("src/enc/lzma2_writer_mt.rs", "get_next_compressed_chunk")],
  contract="results arriving in any order through the real mpsc channel are handed out in sequence order, each exactly once; end reported only after last_sequence_id was returned")

PARK(id="C08.worker.w", props=["C08", "C13"], file="enc/lzma2_writer_mt.rs", extra_files=["enc/lzma2_writer.rs"], harnesses=["c08_worker_w_lzma2_two_units"], stubs=[], assumptions=SCHED,
  contract_stubs=["LZMA2Writer::{new,write_chunk,start_independent_chunk} -> chunk-level contract (first chunk of a writer resets the dictionary; proved for the real writer in C01.l2.w)", "LZEncoder::fill_window accepts all bytes", "mpsc channel -> chan_any", "Condvar::notify_* no-op"],
  kind="bounded", bound="two queued units of 1..3 bytes each, any sequence numbers",
  functions=[("src/enc/lzma2_writer_mt.rs", "worker_thread_logic")],
  contract="per stolen unit exactly one result with the same sequence number; its bytes encode exactly that unit and start with a dictionary-reset chunk (self-contained, no state carried between units, preset dictionary dropped); busy counter back to 0; no error")

U(id="C06.xz.bhdr", props=["C06", "C04", "C03"], file="xz/reader.rs", extra_files=["xz.rs"],
  harnesses=["c06_xz_block_header_total_s1"], thorough_harnesses=["c06_xz_block_header_total_s2", "c06_xz_block_header_total_s3", "c06_xz_block_header_total_s5"], timeout_quick=1500,
  kind="bounded", bound="declared header sizes 8, 12, 16 (24 in thorough) bytes, every content",
  contract_stubs=["parse_multibyte_integer / count_multibyte_integer_size -> contract (exact for 1..3-byte encodings, over-approximated beyond; met by the real functions: C02.mbi c06_mbi_contract_short)"],
  functions=[("src/xz/reader.rs", "parse", "BlockHeader")],
  contract="forall header bytes: returns without panic; Ok => declared size consumed, stored CRC = crc_fn(header), reserved flag bits zero, last filter LZMA2 and none after it, delta distance in 1..=256, dictionary >= 4096")

U(id="C01.lze.pending", props=["C01", "C07", "C13"], file="lz/lz_encoder.rs", harnesses=["c01_lze_pending_flush", "c01_lze_fill_window_pending"], stubs=[],
  contract_stubs=["dyn MatchFind -> MfGhost: skip(n) = n x move_pos(4,4), inserts a position iff look-ahead is available; asserts positions are inserted in order, once"],
  kind="bounded", bound="window buffer of 32 bytes, pending count <= 6; every read/write/limit position",
  functions=[("src/lz/lz_encoder.rs", "process_pending_bytes"), ("src/lz/lz_encoder.rs", "set_flushing", "LZEncoderData"), ("src/lz/lz_encoder.rs", "set_finishing", "LZEncoderData"),
             ("src/lz/lz_encoder.rs", "fill_window", "LZEncoderData"), ("src/lz/lz_encoder.rs", "move_pos", "LZEncoderData")],
  contract="from every state in which the match finder is in step with the window (finder position = read_pos + 1 - pending): flush / finish / fill re-offer the pending positions exactly once, restore read_pos, leave pending exactly the positions still short of look-ahead, and the finder is in step again")

DROPSTUB = ["spawn_worker_thread -> ghost counter (thread::spawn is outside Kani)", "Condvar::notify_* no-op (wake-up itself: C10.lock)",
            "Arc::drop_slow -> leak the payload (std's thread Packet destructor uses the catch_unwind intrinsic, which Kani 0.68 cannot compile)"]
_ND = "new: worker limit = clamp(n,1,256) for every u32 n, at most one worker started, unit size = max(configured, dictionary); drop from any state of the shutdown flag: flag set, queue closed (steal returns None without waiting), no blocking call"
U(id="C10.newdrop.w2", props=["C10", "C18", "C19"], file="enc/lzma2_writer_mt.rs", harnesses=["c10_new_drop_w_lzma2_small", "c10_new_drop_w_lzma2_large", "c19_new_w_lzma2_no_chunk_size"], assumptions=SCHED, contract_stubs=DROPSTUB,
  functions=[("src/enc/lzma2_writer_mt.rs", "new", "LZMA2WriterMT"), ("src/enc/lzma2_writer_mt.rs", "drop", "Drop for LZMA2WriterMT")], contract=_ND)
U(id="C10.newdrop.r2", props=["C10"], file="lzma2_reader_mt.rs", harnesses=["c10_new_drop_r_lzma2"], stubs=[], assumptions=SCHED, contract_stubs=DROPSTUB,
  functions=[("src/lzma2_reader_mt.rs", "new", "LZMA2ReaderMT"), ("src/lzma2_reader_mt.rs", "drop", "Drop for LZMA2ReaderMT")], contract=_ND)
U(id="C10.newdrop.wz", props=["C10", "C18"], file="lzip/writer_mt.rs", harnesses=["c10_new_drop_w_lzip_small", "c10_new_drop_w_lzip_large"], assumptions=SCHED, contract_stubs=DROPSTUB,
  functions=[("src/lzip/writer_mt.rs", "new", "LZIPWriterMT"), ("src/lzip/writer_mt.rs", "drop", "Drop for LZIPWriterMT")], contract=_ND)
U(id="C10.newdrop.rz", props=["C10"], file="lzip/reader_mt.rs", harnesses=["c10_new_drop_r_lzip"], stubs=[], assumptions=SCHED, contract_stubs=DROPSTUB + ["LZIPReaderMT::scan_members -> Ok (its body: C08.scan)"],
  functions=[("src/lzip/reader_mt.rs", "new", "LZIPReaderMT"), ("src/lzip/reader_mt.rs", "drop", "Drop for LZIPReaderMT")], contract=_ND)

U(id="C15.trusted.asm", props=["C15", "C14", "C06"], backend="pin", kind="assumed", stubs=[], assumptions=SIMD,
  functions=[("src/range_dec.rs", "decode_direct_bits_x86_64"), ("src/range_dec.rs", "decode_direct_bits_aarch64"), ("src/range_dec.rs", "decode_direct_bits"),
             ("src/lz/lz_encoder.rs", "normalize_avx2"), ("src/lz/lz_encoder.rs", "normalize_sse41"), ("src/lz/lz_encoder.rs", "normalize_neon")],
  contract="ASSUMED, not proved (inline asm / SIMD intrinsics are outside Kani and Verus): the asm direct-bit decoders clamp every byte load to index min(pos, len-1) of the chunk buffer and compute the portable loop's result; the SIMD normalisers compute max(p,off)-off on aligned chunks from align_to_mut. The text of these functions is pinned: a change makes this unit UNDECIDED")

_CUT = "one write of 20 bytes with K in {0,3,7} bytes already pending, unit size 8: every dispatched unit has exactly unit-size bytes, units are the input in order, < unit size stays pending, all bytes consumed"
CUTSTUB = ["send_work_unit -> ghost unit log (own body: C10.newdrop / queue units)", "get_next_compressed_chunk -> Ok(None) (no result ready)", "spawn_worker_thread -> ghost counter", "Arc::drop_slow -> leak"]
U(id="C18.mt.w2", props=["C18", "C13", "C08", "C07"], file="enc/lzma2_writer_mt.rs", harnesses=["c18_mt_write_cut_lzma2_k0", "c18_mt_write_cut_lzma2_k3", "c18_mt_write_cut_lzma2_k7"], assumptions=SCHED, contract_stubs=CUTSTUB,
  kind="bounded", bound="unit size 8 (field set after the real constructor), one 20-byte write, 0/3/7 pending bytes",
  functions=[("src/enc/lzma2_writer_mt.rs", "write", "Write for LZMA2WriterMT")], contract=_CUT)
U(id="C18.mt.wz", props=["C18", "C13", "C08", "C07"], file="lzip/writer_mt.rs", harnesses=["c18_mt_write_cut_lzip_k0", "c18_mt_write_cut_lzip_k3", "c18_mt_write_cut_lzip_k7"], assumptions=SCHED, contract_stubs=CUTSTUB,
  kind="bounded", bound="member size 8 (field set after the real constructor), one 20-byte write, 0/3/7 pending bytes",
  functions=[("src/lzip/writer_mt.rs", "write", "Write for LZIPWriterMT")], contract=_CUT)

U(id="C16.l1.end", props=["C16", "C01", "C12"], file="lzma_reader.rs", harnesses=["c16_lzma_end_marker_first_symbol", "c16_lzma_end_marker_after_bytes"],
  contract_stubs=["LZMADecoder::decode -> script: (optionally k literal bytes, normalised as the real Ok path does) then the end marker = Err from the dictionary with reps[0] = -1, before decode's trailing normalise"],
  functions=[("src/lzma_reader.rs", "read_decode"), ("src/range_dec.rs", "normalize"), ("src/range_dec.rs", "is_stream_finished"), ("src/decoder.rs", "end_marker_detected")],
  contract="end marker with the range decoder in any state: Ok(bytes before it), stream finished, range decoder normalised (exactly the byte the coder still needs is consumed, none beyond), later reads Ok(0) without touching the source")

_MTR = "read() hands out the bytes of the decoded units in order; Ok(0) only after the unit sequence is exhausted (not for an empty unit / member in the middle); zero-length read is a no-op"
U(id="C12.mt.read", props=["C12", "C08", "C07", "C06"], file="lzip/reader_mt.rs", harnesses=["c12_mt_read_lzip_empty_unit_in_the_middle"], stubs=[], assumptions=SCHED,
  contract_stubs=["get_next_uncompressed_chunk -> script of decoded units [2 bytes, empty, 1 byte, end] (own body: reassembly)", "scan_members -> Ok", "spawn_worker_thread -> ghost counter", "Arc::drop_slow -> leak"],
  kind="bounded", bound="unit script of 3 units with an empty one in the middle, reads of 2 bytes",
  functions=[("src/lzip/reader_mt.rs", "read", "Read for LZIPReaderMT")], contract=_MTR)
U(id="C08.mt.read", props=["C08", "C07", "C06"], file="lzma2_reader_mt.rs", harnesses=["c12_mt_read_lzma2_empty_unit_in_the_middle"], stubs=[], assumptions=SCHED,
  contract_stubs=["get_next_uncompressed_chunk -> script of decoded units [2 bytes, empty, 1 byte, end] (own body: reassembly)", "spawn_worker_thread -> ghost counter", "Arc::drop_slow -> leak"],
  kind="bounded", bound="unit script of 3 units with an empty one in the middle, reads of 2 bytes",
  functions=[("src/lzma2_reader_mt.rs", "read", "Read for LZMA2ReaderMT")], contract=_MTR)

U(id="C14.nostd", props=["C14", "C05"], file="no_std.rs", features=NOSTD, harnesses=["c14_nostd_read_exact", "c14_nostd_write_all", "c14_nostd_slice_io"], stubs=[],
  contract_stubs=["io_any source / sink: short transfers, Interrupted, hard error at a chosen call"],
  functions=[("src/no_std.rs", "default_read_exact"), ("src/no_std.rs", "write_all"), ("src/no_std.rs", "read", "Read for &[u8]"), ("src/no_std.rs", "write", "Write for &mut [u8]")],
  contract="no_std read_exact / write_all meet the contract std documents (all-or-error, Interrupted retried, error kind preserved, nothing read beyond the request); slice Read/Write copy min(len) bytes and advance; full slice sink => WriteZero")
U(id="C01.lze.preset", props=["C01", "C19"], file="lz/lz_encoder.rs", harnesses=["c01_lze_preset_short", "c01_lze_preset_long"], stubs=[],
  contract_stubs=["dyn MatchFind -> MfGhost"], kind="bounded", bound="dictionary size 8, preset dictionaries of 5 and 12 bytes, any content",
  functions=[("src/lz/lz_encoder.rs", "set_preset_dict", "LZEncoderData")],
  contract="the encoder window is primed with the last min(len, dict_size) bytes of the preset dictionary (what the decoder keeps), positions offered to the match finder once")

_MFN = "match finder constructors: cyclic window = dict_size + 1 exactly (independent of the backing table's rounded length), start position dict_size + 1, table >= window and zeroed, depth rule"
U(id="C14.mf.new", props=["C14", "C13", "C15", "C01"], file="lz/hc4.rs", extra_files=["lz/bt4.rs"], harnesses=["c14_hc4_new_4096", "c14_hc4_new_4100"], stubs=[],
  kind="bounded", bound="dictionary sizes 4096 and 4100 (the second makes the aligned table longer than the window), every nice_len / depth; optimization build",
  functions=[("src/lz/hc4.rs", "new", "HC4")], contract=_MFN)
U(id="C14.mf.new.bt4", props=["C14", "C13", "C15", "C01"], file="lz/bt4.rs", harnesses=["c14_bt4_new_4096", "c14_bt4_new_4100"], stubs=[],
  kind="bounded", bound="dictionary sizes 4096 and 4100, every nice_len / depth; optimization build",
  functions=[("src/lz/bt4.rs", "new", "BT4")], contract=_MFN)
U(id="C14.mf.new.safe", props=["C14"], file="lz/hc4.rs", features=NOOPT, harnesses=["c14_hc4_new_4096", "c14_hc4_new_4100"], stubs=[],
  kind="bounded", bound="as C14.mf.new, build without the optimization feature (Vec tables)",
  functions=[("src/lz/hc4.rs", "new", "HC4")], contract=_MFN + " - same contract in the other cfg build => the twins agree")
U(id="C01.mf.skip", props=["C01", "C13"], file="lz/hc4.rs", harnesses=["c01_hc4_skip_sync"], stubs=[],
  kind="bounded", bound="fresh HC4 (dict 4096), window of 32 bytes, skip of <= 6 positions",
  functions=[("src/lz/hc4.rs", "skip", "MatchFind for HC4"), ("src/lz/hc4.rs", "move_pos", "HC4")],
  contract="HC4::skip(n) meets the MatchFind contract assumed by C01.lze.pending: n window steps, a position inserted iff >= 4 bytes look-ahead, lz_pos - (dict+1) = read_pos + 1 - pending, cyclic_pos follows")

U(id="C03.xz.backward", props=["C03", "C02"], file="xz/writer.rs", harnesses=["c03_xz_footer_backward_n129", "c03_xz_footer_backward_n130", "c03_xz_footer_backward_n127"], tier="thorough", timeout=1500,
  kind="bounded", bound="127, 129 and 133 index records with 1-byte size fields (record count field of 1 and 2 bytes; unpadded index size 1 mod 4)",
  functions=[("src/xz/writer.rs", "write_stream_footer"), ("src/xz.rs", "count_multibyte_integer_size_for_value")],
  contract="footer Backward Size = real index size / 4 - 1 (xz-file-format 2.1.2.1) also when the Number of Records field takes 2 bytes")

U(id="C05.rc.src", props=["C05"], file="range_dec.rs", harnesses=["c05_rc_stream_fetch"], known_findings=[{"harness": "kf_c05_rc_stream_error_becomes_zero_byte"}],
  stubs=ERR + ["io_any source"],
  functions=[("src/range_dec.rs", "read_u8", "RangeReader for T"), ("src/range_dec.rs", "try_read_u8", "RangeReader for T"), ("src/range_dec.rs", "read_u32_be", "RangeReader for T")],
  contract="stream byte fetch: bytes in order across Interrupted; try_read_u8 / read_u32_be return the source's error kind (EOF, hard error); known finding D19: read_u8 (used by normalize) turns a source error into the byte 0x00")

U(id="C16.l2.read", props=["C16", "C07", "C04", "C05", "C01"], file="lzma2_reader.rs", features=NOSTD,
  harnesses=["c16_l2_read_uncompressed_k1", "c16_l2_read_uncompressed_k3", "c16_l2_read_uncompressed_k4", "c04_l2_error_is_sticky_structural", "c04_l2_error_is_sticky_truncated"], thorough_harnesses=["c05_l2_missing_terminator"],
  kind="bounded", bound="stream of two uncompressed chunks (3 + 1 bytes) + terminator + trailing bytes; first read of 1/3/4 bytes; no_std build",
  functions=[("src/lzma2_reader.rs", "read_decode"), ("src/lzma2_reader.rs", "read", "Read for LZMA2Reader"), ("src/lzma2_reader.rs", "decode_chunk_header"), ("src/lz/lz_decoder.rs", "copy_uncompressed")],
  contract="read loop over uncompressed chunks: bytes in order for every read split, end only after the terminator, exactly the stream's bytes consumed, later reads Ok(0) without touching the source; structural / truncation errors are returned with their kind and stay returned")

U(id="C05.exact", props=["C05", "C16", "C06"], file="lzma2_reader.rs", features=NOSTD, harnesses=["c05_byte_reader_u8", "c05_byte_reader_u16", "c05_byte_reader_u16_be", "c05_byte_reader_u32", "c05_byte_reader_u32_be", "c05_byte_reader_u64", "c05_byte_writer_fields"],
  stubs=ERR + ["io_any source / sink"],
  functions=[("src/lib.rs", "read_u8", "ByteReader for T"), ("src/lib.rs", "read_u16", "ByteReader for T"), ("src/lib.rs", "read_u16_be", "ByteReader for T"), ("src/lib.rs", "read_u32", "ByteReader for T"),
             ("src/lib.rs", "read_u32_be", "ByteReader for T"), ("src/lib.rs", "read_u64", "ByteReader for T"), ("src/lib.rs", "write_u8", "ByteWriter for T"), ("src/lib.rs", "write_u64", "ByteWriter for T"),
             ("src/lzma2_reader.rs", "decode_chunk_header")],
  contract="fixed-width field reads return a value only when all its bytes were delivered (short reads / Interrupted tolerated, EOF => Err(EOF), source error kind preserved); writes emit exactly the value's bytes; an LZMA2 stream without its 0x00 terminator is Err(EOF), not a clean end")
PARK(id="C08.scan", props=["C08", "C06", "C12"], file="lzip/reader_mt.rs", harnesses=["c08_lzip_scan_n26", "c08_lzip_scan_n30"], assumptions=SCHED,
  kind="bounded", bound="every file of 26 and of 30 bytes", contract_stubs=["spawn_worker_thread -> ghost counter"],
  functions=[("src/lzip/reader_mt.rs", "scan_members"), ("src/lzip/reader_mt.rs", "member_count")],
  contract="member scan on arbitrary bytes: no panic / overflow, I/O calls linear in the file size (progress), Ok => members in forward order, contiguous, non-empty, each at a magic, last ends at end of file")

# ---------------------------------------------------------------------------------------- quick-tier budget
# Harnesses kept in the quick tier per unit; every other harness of the unit runs in the thorough tier only.
QUICK_ONLY = {
    "C02.xz.index": ["c02_xz_index_footer_n0_1_1", "c02_xz_index_footer_n1_2_1", "c02_xz_index_footer_n1_9_9"],
    "C02.xz.index.r": ["c02_xz_index_parse_n0_1_1", "c02_xz_index_parse_n1_2_3", "c02_xz_index_parse_n1_9_9"],
    "C04.xz.block": ["c04_xz_block_end_none_p3", "c04_xz_block_end_crc32_p1", "c04_xz_block_end_crc64_p0"],
    "C11.group.x86": ["c11_bcj_x86_short"],
    "C07.bcj.code.x86": ["c07_bcj_x86_split_k5_dec"],
    "C07.bcj.code.riscv": ["c07_bcj_riscv_split_k10_dec"],
    "C07.bcj.code.thumb": ["c07_bcj_thumb_split_k5_dec", "c07_bcj_thumb_split_k6_enc"],
}
for _u in UNITS:
    if _u["id"] in QUICK_ONLY:
        keep = QUICK_ONLY[_u["id"]]
        allh = _u["harnesses"] + _u.get("thorough_harnesses", [])
        assert all(k in allh for k in keep), (_u["id"], keep)
        _u["harnesses"] = keep
        _u["thorough_harnesses"] = [h for h in allh if h not in keep]
